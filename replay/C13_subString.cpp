// native replay: C13 subString(beginPos, amount) on the real SimpleString, for every string and position.
// Inputs (harness variable names): n = buffer size of the receiver (string length n-1), beginPos, amount.
// The string content is 'a'..'z' repeated (the obligations that fail do not depend on the content).
// Returns 1 iff the real code misbehaves: a sanitizer report (ASan/UBSan abort with non-zero exit) or a result
// that differs from the textbook substring.
#include "CppUTest/TestHarness.h"
#include "replay.h"
#include <string>
int main(int argc, char **argv)
{
    r_init(argc, argv);
    uint64_t n = r_u64("n", 1), beginPos = r_u64("beginPos", 0), amount = r_u64("amount", 0);
    if (n == 0 || n > (1u << 20)) n = (n == 0) ? 1 : (1u << 20);
    std::string ref;
    for (uint64_t k = 0; k + 1 < n; k++) ref.push_back((char)('a' + k % 26));
    SimpleString s(ref.c_str());
    printf("SimpleString of length %llu .subString(%llu, %llu)\n", (unsigned long long)ref.size(), (unsigned long long)beginPos, (unsigned long long)amount);
    fflush(stdout);
    SimpleString got = s.subString((size_t)beginPos, (size_t)amount);   // ASan aborts here on an out-of-bounds read
    std::string want = beginPos >= ref.size() ? std::string() : ref.substr((size_t)beginPos, (size_t)amount);
    if (want != got.asCharString()) REPRODUCED("expected \"%s\", real function returned \"%s\"", want.c_str(), got.asCharString());
    NOT_REPRODUCED("real function agrees with the textbook substring on this input");
}
