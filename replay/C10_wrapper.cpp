// native replay: C10 lock discipline of one thread-safe wrapper of the real MemoryLeakWarningPlugin.cpp.
// usage: C10_wrapper <wrapper> [name=value...]     wrapper: malloc free realloc operator_new ... operator_delete_array misuse
// The platform mutex seam is replaced by a recording one (held / lock / unlock counts, recursive lock = the hang);
// the allocator handed to the detector checks that the mutex is held whenever the detector reaches it.
// 'misuse': delete of a new[] block through the thread-safe wrapper inside a running test, then the next allocation:
// reproduces iff the mutex is still held after the misuse report left the wrapper.
// REPLAY-INCLUDES: src/CppUTest/MemoryLeakWarningPlugin.cpp
#include "src/CppUTest/MemoryLeakWarningPlugin.cpp"
#include "CppUTest/TestHarness.h"
#include "CppUTest/TestRegistry.h"
#include "CppUTest/TestOutput.h"
#include "CppUTest/TestTestingFixture.h"
#include "replay.h"

static int held, locks, unlocks, recursive, unheld_unlock, unheld_use, uses;
static PlatformSpecificMutex rec_create(void) { return (PlatformSpecificMutex)&held; }
static void rec_lock(PlatformSpecificMutex) { if (held) recursive++; held = 1; locks++; }
static void rec_unlock(PlatformSpecificMutex) { if (!held) unheld_unlock++; held = 0; unlocks++; }
static void rec_destroy(PlatformSpecificMutex) {}

struct CheckingAllocator : TestMemoryAllocator {
    CheckingAllocator() : TestMemoryAllocator("chk", "chk") {}
    char* alloc_memory(size_t size, const char*, size_t) { uses++; if (!held) unheld_use++; return (char*)malloc(size); }
    void free_memory(char* m, size_t, const char*, size_t) { uses++; if (!held) unheld_use++; free(m); }
    char* allocMemoryLeakNode(size_t size) { return (char*)malloc(size); }
    void freeMemoryLeakNode(char* m) { free(m); }
};

static void misuseBody()
{
    char *p = (char*) threadsafe_mem_leak_operator_new_array(4);
    threadsafe_mem_leak_operator_delete(p);        /* new[] released with delete: reported, leaves by longjmp */
}

int main(int argc, char **argv)
{
    r_init(argc, argv);
    const char *w = "malloc";
    for (int i = 1; i < argc; i++) if (!strchr(argv[i], '=')) w = argv[i];
    PlatformSpecificMutexCreate = rec_create; PlatformSpecificMutexLock = rec_lock;
    PlatformSpecificMutexUnlock = rec_unlock; PlatformSpecificMutexDestroy = rec_destroy;
    MemoryLeakWarningPlugin::turnOffNewDeleteOverloads();
    MemoryLeakDetector *det = MemoryLeakWarningPlugin::getGlobalDetector();   /* creates its SimpleMutex through the seam */
    det->enable();
    static CheckingAllocator a;
    setCurrentMallocAllocator(&a); setCurrentNewAllocator(&a); setCurrentNewArrayAllocator(&a);
    size_t size = (size_t) r_u64("size", 16); if (size > (1u << 20)) size = 1u << 20;
    held = locks = unlocks = recursive = unheld_unlock = unheld_use = uses = 0;

    if (!strcmp(w, "misuse")) {
        setCurrentNewAllocatorToDefault(); setCurrentNewArrayAllocatorToDefault();   /* two families, so that delete of new[] is a mismatch */
        TestTestingFixture fixture;
        fixture.setTestFunction(misuseBody);
        fixture.runAllTests();
        printf("after the misuse report: failures=%d held=%d locks=%d unlocks=%d\n", (int)fixture.getFailureCount(), held, locks, unlocks);
        if (held) REPRODUCED("the detector mutex is still held after the misuse report: the next allocation of the run blocks forever");
        if (unheld_unlock) REPRODUCED("mutex released while not held");
        NOT_REPRODUCED("mutex released before the non-local exit");
    }
    if (!strcmp(w, "switch")) {
        MemoryLeakWarningPlugin::turnOnThreadSafeNewDeleteOverloads();
        int bad = 0;
        bad += operator_new_fptr != threadsafe_mem_leak_operator_new; bad += operator_new_nothrow_fptr != threadsafe_mem_leak_operator_new_nothrow;
        bad += operator_new_debug_fptr != threadsafe_mem_leak_operator_new_debug; bad += operator_new_array_fptr != threadsafe_mem_leak_operator_new_array;
        bad += operator_new_array_nothrow_fptr != threadsafe_mem_leak_operator_new_array_nothrow; bad += operator_new_array_debug_fptr != threadsafe_mem_leak_operator_new_array_debug;
        bad += operator_delete_fptr != threadsafe_mem_leak_operator_delete; bad += operator_delete_array_fptr != threadsafe_mem_leak_operator_delete_array;
        bad += malloc_fptr != threadsafe_mem_leak_malloc; bad += realloc_fptr != threadsafe_mem_leak_realloc; bad += free_fptr != threadsafe_mem_leak_free;
        MemoryLeakWarningPlugin::turnOffNewDeleteOverloads();
        if (bad) REPRODUCED("%d of the 11 entry-point slots do not hold the thread-safe wrapper after turnOnThreadSafeNewDeleteOverloads", bad);
        NOT_REPRODUCED("all 11 slots hold the thread-safe wrappers");
    }
    if (!strcmp(w, "saverestore")) {
        MemoryLeakWarningPlugin::turnOnThreadSafeNewDeleteOverloads();
        MemoryLeakWarningPlugin::saveAndDisableNewDeleteOverloads();
        MemoryLeakWarningPlugin::saveAndDisableNewDeleteOverloads();
        MemoryLeakWarningPlugin::restoreNewDeleteOverloads();
        MemoryLeakWarningPlugin::restoreNewDeleteOverloads();
        int bad = 0;
        bad += operator_new_fptr != threadsafe_mem_leak_operator_new; bad += operator_new_nothrow_fptr != threadsafe_mem_leak_operator_new_nothrow;
        bad += operator_new_debug_fptr != threadsafe_mem_leak_operator_new_debug; bad += operator_new_array_fptr != threadsafe_mem_leak_operator_new_array;
        bad += operator_new_array_nothrow_fptr != threadsafe_mem_leak_operator_new_array_nothrow; bad += operator_new_array_debug_fptr != threadsafe_mem_leak_operator_new_array_debug;
        bad += operator_delete_fptr != threadsafe_mem_leak_operator_delete; bad += operator_delete_array_fptr != threadsafe_mem_leak_operator_delete_array;
        bad += malloc_fptr != threadsafe_mem_leak_malloc; bad += realloc_fptr != threadsafe_mem_leak_realloc; bad += free_fptr != threadsafe_mem_leak_free;
        MemoryLeakWarningPlugin::turnOffNewDeleteOverloads();
        if (bad) REPRODUCED("%d of the 11 slots do not hold the thread-safe wrapper again after a nested save / restore", bad);
        NOT_REPRODUCED("all 11 slots restored");
    }
    void *p = 0;
    if (!strcmp(w, "malloc")) { p = threadsafe_mem_leak_malloc(size, "f.c", 1); }
    else if (!strcmp(w, "free")) { p = mem_leak_malloc(size, "f.c", 1); uses = unheld_use = 0; threadsafe_mem_leak_free(p, "f.c", 2); }
    else if (!strcmp(w, "realloc")) { p = mem_leak_malloc(size, "f.c", 1); uses = unheld_use = 0; p = threadsafe_mem_leak_realloc(p, size + 8, "f.c", 2); }
    else if (!strcmp(w, "operator_new")) p = threadsafe_mem_leak_operator_new(size);
    else if (!strcmp(w, "operator_new_nothrow")) p = threadsafe_mem_leak_operator_new_nothrow(size);
    else if (!strcmp(w, "operator_new_debug")) p = threadsafe_mem_leak_operator_new_debug(size, "f.c", 1);
    else if (!strcmp(w, "operator_new_array")) p = threadsafe_mem_leak_operator_new_array(size);
    else if (!strcmp(w, "operator_new_array_nothrow")) p = threadsafe_mem_leak_operator_new_array_nothrow(size);
    else if (!strcmp(w, "operator_new_array_debug")) p = threadsafe_mem_leak_operator_new_array_debug(size, "f.c", 1);
    else if (!strcmp(w, "operator_delete")) { p = mem_leak_operator_new(size); uses = unheld_use = 0; threadsafe_mem_leak_operator_delete(p); }
    else if (!strcmp(w, "operator_delete_array")) { p = mem_leak_operator_new_array(size); uses = unheld_use = 0; threadsafe_mem_leak_operator_delete_array(p); }
    else { printf("unknown wrapper %s\n", w); return 0; }
    printf("%s: locks=%d unlocks=%d held=%d recursive=%d detector-reached-allocator=%d of which unlocked=%d\n", w, locks, unlocks, held, recursive, uses, unheld_use);
    if (unheld_use) REPRODUCED("the detector was used without the mutex held");
    if (recursive) REPRODUCED("mutex taken while already held (non-recursive: hang)");
    if (held) REPRODUCED("wrapper returned with the mutex held");
    if (locks != 1 || unlocks != 1) REPRODUCED("mutex taken %d times, released %d times", locks, unlocks);
    if (unheld_unlock) REPRODUCED("mutex released while not held");
    NOT_REPRODUCED("lock discipline kept on this call");
}
