// native replay: C04 List_getTotalLeaks - the total is the number of records the period query sees
#include "C04_list.h"
int main(int argc, char **argv)
{
    r_init(argc, argv);
    r_build();
    int period = (int) r_i64("period", mem_leak_period_all);
    if (period < 0 || period > 3) NOT_REPRODUCED("query outside the precondition");
    size_t want = 0;
    for (size_t i = 0; i < r_len; i++) if (r_sees(r_nodes[i].period_, period)) want++;
    size_t got = r_list.getTotalLeaks((MemLeakPeriod) period);
    printf("chain of %lu, query %d: total %lu, statement says %lu\n", (unsigned long) r_len, period, (unsigned long) got, (unsigned long) want);
    if (got != want) REPRODUCED("total %lu differs from the number of visible records %lu", (unsigned long) got, (unsigned long) want);
    NOT_REPRODUCED("real getTotalLeaks agrees with the postcondition on this chain");
}
