// native replay: C08 layer L2, MockExpectedCallsList against a textbook filter / count.
// REPLAY-EXT
// The bounded proofs of contracts/C08_list.spec quantify over the list length n, a source-list length m and one answer
// p<i> of "the" per-expectation predicate for every expectation i (plus an actual-call count c<i>).  This driver builds a
// REAL MockExpectedCallsList of n REAL MockCheckedExpectedCall objects whose real predicate answers are p0..p3 (the
// objects are configured through the public expectation interface so that the predicate in question answers that way),
// runs the operation named by the extra argument, and compares the resulting list (sequence of expectation objects, by
// identity) / the returned value with a textbook computation done here.  Returns 1 iff they differ.
#define private public
#define protected public
#include "CppUTest/TestHarness.h"
#include "CppUTestExt/MockExpectedCallsList.h"
#include "CppUTestExt/MockCheckedExpectedCall.h"
#include "CppUTestExt/MockNamedValue.h"
#undef private
#undef protected
#include "replay.h"

enum { MAXN = 4 };
static int objA, objB;            // two objects for onObject / relatesToObject
static int outBuf;

// which predicate the operation consults
enum Pred { P_NONE, P_RELATES, P_OUTOFORDER, P_FULFILLED, P_CANMATCH, P_MATCHFINAL, P_MATCH, P_PARAMSMATCH, P_INNAME, P_OUTNAME, P_INPARAM, P_OUTPARAM, P_OBJECT };

static MockCheckedExpectedCall *make(Pred pr, bool answer, unsigned calls)
{
    MockCheckedExpectedCall *e = new MockCheckedExpectedCall(pr == P_FULFILLED || pr == P_CANMATCH ? 2 : 100);
    e->withName(pr == P_RELATES && !answer ? "g" : "f");
    switch (pr) {
    case P_OUTOFORDER: e->withCallOrder(5); if (answer) e->callWasMade(1); break;            // a call observed at position 1, expected at 5
    case P_FULFILLED: e->callWasMade(0); if (answer) e->callWasMade(0); break;                 // 2 expected: fulfilled after exactly 2 calls
    case P_CANMATCH: e->callWasMade(0); if (!answer) e->callWasMade(0); break;                 // 2 expected: can take more calls while fewer than 2 were made
    case P_MATCHFINAL: if (!answer) e->onObject(&objA); break;                                   // not (yet) passed to its object: not matching
    case P_MATCH: e->ignoreOtherParameters(); if (!answer) e->onObject(&objA); break;             // matching, but (ignoring other parameters) not finalized
    case P_PARAMSMATCH: if (!answer) e->withIntParameter("a", 1); break;                          // parameter a not passed by the actual call
    case P_INNAME: e->withIntParameter(answer ? "a" : "b", 1); break;
    case P_OUTNAME: e->withOutputParameterReturning(answer ? "a" : "b", &outBuf, sizeof outBuf); break;
    case P_INPARAM: e->withIntParameter("a", answer ? 1 : 2); break;
    case P_OUTPARAM: if (answer) e->withOutputParameterReturning("a", &outBuf, sizeof outBuf); break;
    case P_OBJECT: e->onObject(answer ? (void *)&objA : (void *)&objB); break;
    default: break;
    }
    if (pr == P_RELATES || pr == P_NONE) for (unsigned k = 0; k < calls; k++) e->callWasMade(0);
    return e;
}

static unsigned view(MockExpectedCallsList &l, MockCheckedExpectedCall **out, unsigned cap)
{
    unsigned k = 0;
    for (MockExpectedCallsList::MockExpectedCallsListNode *p = l.head_; p && k < cap; p = p->next_) out[k++] = p->expectedCall_;
    return k;
}

int main(int argc, char **argv)
{
    r_init(argc, argv);
    const char *op = argc > 1 ? argv[argc - 1] : "size";
    unsigned n = (unsigned)r_u64("n", 3), m = (unsigned)r_u64("m", 0);
    if (n > MAXN) n = MAXN;
    if (m > MAXN) m = MAXN;
    if (strncmp(op, "addExpectations", 15) && strcmp(op, "addPotentiallyMatchingExpectations")) m = 0;   // a source list only for the add-from operations
    bool p[MAXN]; unsigned c[MAXN];
    for (unsigned i = 0; i < MAXN; i++) {
        char nm[8];
        snprintf(nm, sizeof nm, "p%u", i); p[i] = r_u64(nm, 0) != 0;
        snprintf(nm, sizeof nm, "c%u", i); c[i] = (unsigned)(r_u64(nm, 0) % 4);
    }
    struct { const char *op; Pred pr; } table[] = {
        {"size", P_NONE}, {"isEmpty", P_NONE}, {"hasCallsOutOfOrder", P_OUTOFORDER}, {"hasFinalizedMatchingExpectations", P_MATCHFINAL},
        {"hasUnfulfilledExpectations", P_FULFILLED}, {"hasExpectationWithName", P_RELATES}, {"hasUnmatchingExpectationsBecauseOfMissingParameters", P_PARAMSMATCH},
        {"amountOfUnfulfilledExpectations", P_FULFILLED}, {"amountOfActualCallsFulfilledFor", P_RELATES}, {"getFirstMatchingExpectation", P_MATCH},
        {"onlyKeepExpectationsRelatedTo", P_RELATES}, {"onlyKeepOutOfOrderExpectations", P_OUTOFORDER}, {"onlyKeepUnmatchingExpectations", P_MATCHFINAL},
        {"onlyKeepExpectationsWithInputParameterName", P_INNAME}, {"onlyKeepExpectationsWithOutputParameterName", P_OUTNAME},
        {"onlyKeepExpectationsWithInputParameter", P_INPARAM}, {"onlyKeepExpectationsWithOutputParameter", P_OUTPARAM}, {"onlyKeepExpectationsOnObject", P_OBJECT},
        {"pruneEmptyNodeFromList", P_NONE}, {"removeFirstFinalizedMatchingExpectation", P_MATCHFINAL}, {"removeFirstMatchingExpectation", P_MATCH},
        {"addExpectedCall", P_NONE}, {"addPotentiallyMatchingExpectations", P_CANMATCH}, {"addExpectationsRelatedTo", P_RELATES}, {"addExpectations", P_NONE},
        {"resetActualCallMatchingState", P_NONE}, {"wasPassedToObject", P_NONE}, {"parameterWasPassed", P_NONE}, {"outputParameterWasPassed", P_NONE},
        {"deleteAllExpectationsAndClearList", P_NONE} };
    Pred pr = P_NONE; bool known = false;
    for (unsigned k = 0; k < sizeof table / sizeof table[0]; k++) if (!strcmp(op, table[k].op)) { pr = table[k].pr; known = true; }
    if (!known) NOT_REPRODUCED("unknown operation %s", op);

    MockCheckedExpectedCall *e[MAXN];
    for (unsigned i = 0; i < MAXN; i++) e[i] = make(pr, p[i], c[i]);
    MockExpectedCallsList list, src;
    for (unsigned i = 0; i < n; i++) list.addExpectedCall(e[i]);
    for (unsigned i = 0; i < m; i++) src.addExpectedCall(e[i]);
    SimpleString name("f"), pname("a");
    MockNamedValue inParam("a"); inParam.setValue(1);
    MockNamedValue outParam("a"); outParam.setValue((void *)&outBuf);

    // ---- textbook expectation
    MockCheckedExpectedCall *expect[2 * MAXN + 1]; unsigned ne = 0;
    bool have_view = true; long expect_ret = -1; MockCheckedExpectedCall *expect_ptr = 0; bool check_ptr = false;
    unsigned first = n; for (unsigned i = n; i-- > 0; ) if (p[i]) first = i;
    bool ex = false, exn = false; unsigned cntn = 0, sum = 0;
    for (unsigned i = 0; i < n; i++) { if (p[i]) { ex = true; sum += c[i]; } else { exn = true; cntn++; } }
    bool keepall = true, keep_if = true, remove_first = false;
    long ret = -1; MockCheckedExpectedCall *ret_ptr = 0;

    if (!strcmp(op, "size")) { ret = list.size(); expect_ret = n; }
    else if (!strcmp(op, "isEmpty")) { ret = list.isEmpty(); expect_ret = n == 0; }
    else if (!strcmp(op, "hasCallsOutOfOrder")) { ret = list.hasCallsOutOfOrder(); expect_ret = ex; }
    else if (!strcmp(op, "hasFinalizedMatchingExpectations")) { ret = list.hasFinalizedMatchingExpectations(); expect_ret = ex; }
    else if (!strcmp(op, "hasUnfulfilledExpectations")) { ret = list.hasUnfulfilledExpectations(); expect_ret = exn; }
    else if (!strcmp(op, "hasExpectationWithName")) { ret = list.hasExpectationWithName(name); expect_ret = ex; }
    else if (!strcmp(op, "hasUnmatchingExpectationsBecauseOfMissingParameters")) { ret = list.hasUnmatchingExpectationsBecauseOfMissingParameters(); expect_ret = exn; }
    else if (!strcmp(op, "amountOfUnfulfilledExpectations")) { ret = list.amountOfUnfulfilledExpectations(); expect_ret = cntn; }
    else if (!strcmp(op, "amountOfActualCallsFulfilledFor")) { ret = list.amountOfActualCallsFulfilledFor(name); expect_ret = sum; }
    else if (!strcmp(op, "getFirstMatchingExpectation")) { ret_ptr = list.getFirstMatchingExpectation(); check_ptr = true; expect_ptr = first < n ? e[first] : 0; }
    else if (!strcmp(op, "onlyKeepExpectationsRelatedTo")) { list.onlyKeepExpectationsRelatedTo(name); keepall = false; }
    else if (!strcmp(op, "onlyKeepOutOfOrderExpectations")) { list.onlyKeepOutOfOrderExpectations(); keepall = false; }
    else if (!strcmp(op, "onlyKeepUnmatchingExpectations")) { list.onlyKeepUnmatchingExpectations(); keepall = false; keep_if = false; }
    else if (!strcmp(op, "onlyKeepExpectationsWithInputParameterName")) { list.onlyKeepExpectationsWithInputParameterName(pname); keepall = false; }
    else if (!strcmp(op, "onlyKeepExpectationsWithOutputParameterName")) { list.onlyKeepExpectationsWithOutputParameterName(pname); keepall = false; }
    else if (!strcmp(op, "onlyKeepExpectationsWithInputParameter")) { list.onlyKeepExpectationsWithInputParameter(inParam); keepall = false; }
    else if (!strcmp(op, "onlyKeepExpectationsWithOutputParameter")) { list.onlyKeepExpectationsWithOutputParameter(outParam); keepall = false; }
    else if (!strcmp(op, "onlyKeepExpectationsOnObject")) { list.onlyKeepExpectationsOnObject(&objA); keepall = false; }
    else if (!strcmp(op, "pruneEmptyNodeFromList")) {
        unsigned i = 0;
        for (MockExpectedCallsList::MockExpectedCallsListNode *q = list.head_; q; q = q->next_, i++) if (!p[i]) q->expectedCall_ = 0;
        list.pruneEmptyNodeFromList(); keepall = false;
    }
    else if (!strcmp(op, "removeFirstFinalizedMatchingExpectation")) { ret_ptr = list.removeFirstFinalizedMatchingExpectation(); check_ptr = true; expect_ptr = first < n ? e[first] : 0; remove_first = true; }
    else if (!strcmp(op, "removeFirstMatchingExpectation")) { ret_ptr = list.removeFirstMatchingExpectation(); check_ptr = true; expect_ptr = first < n ? e[first] : 0; remove_first = true; }
    else if (!strcmp(op, "addExpectedCall")) { list.addExpectedCall(e[MAXN - 1]); }
    else if (!strcmp(op, "addPotentiallyMatchingExpectations")) { list.addPotentiallyMatchingExpectations(src); }
    else if (!strcmp(op, "addExpectationsRelatedTo")) { list.addExpectationsRelatedTo(name, src); }
    else if (!strcmp(op, "addExpectations")) { list.addExpectations(src); }
    else if (!strcmp(op, "resetActualCallMatchingState")) { list.resetActualCallMatchingState(); }
    else if (!strcmp(op, "wasPassedToObject")) { list.wasPassedToObject(); }
    else if (!strcmp(op, "parameterWasPassed")) { list.parameterWasPassed(pname); }
    else if (!strcmp(op, "outputParameterWasPassed")) { list.outputParameterWasPassed(pname); }
    else if (!strcmp(op, "deleteAllExpectationsAndClearList")) {
        // run under the address sanitizer: a double release or a use after release aborts the driver (non-zero exit = reproduced)
        MockExpectedCallsList l2; for (unsigned i = 0; i < n; i++) l2.addExpectedCall(make(P_NONE, true, 0));
        l2.deleteAllExpectationsAndClearList();
        if (!l2.isEmpty() || l2.head_ != 0) REPRODUCED("deleteAllExpectationsAndClearList left nodes in the list");
    }
    // expected view
    for (unsigned i = 0; i < n; i++) {
        bool keep = keepall ? true : (p[i] == keep_if);
        if (remove_first) keep = (i != first);
        if (keep) expect[ne++] = e[i];
    }
    if (!strcmp(op, "addExpectedCall")) expect[ne++] = e[MAXN - 1];
    if (!strcmp(op, "addPotentiallyMatchingExpectations") || !strcmp(op, "addExpectationsRelatedTo")) for (unsigned j = 0; j < m; j++) if (p[j]) expect[ne++] = e[j];
    if (!strcmp(op, "addExpectations")) for (unsigned j = 0; j < m; j++) expect[ne++] = e[j];

    printf("operation %s on a list of %u expectations (source list %u), predicate answers %d %d %d %d, calls %u %u %u %u\n", op, n, m, p[0], p[1], p[2], p[3], c[0], c[1], c[2], c[3]);
    if (expect_ret >= 0 && ret != expect_ret) REPRODUCED("%s returned %ld, the textbook count/existence is %ld", op, ret, expect_ret);
    if (check_ptr && ret_ptr != expect_ptr) REPRODUCED("%s returned expectation %p, the first qualifying one is %p", op, (void *)ret_ptr, (void *)expect_ptr);
    if (have_view) {
        MockCheckedExpectedCall *got[2 * MAXN + 2]; unsigned ng = view(list, got, 2 * MAXN + 2);
        if (ng != ne) REPRODUCED("after %s the list holds %u expectations, the textbook filter keeps %u", op, ng, ne);
        for (unsigned k = 0; k < ne; k++) if (got[k] != expect[k]) REPRODUCED("after %s position %u of the list holds a different expectation than the textbook filter (order or membership differs)", op, k);
        if (list.size() != ne) REPRODUCED("size() disagrees with the walked length");
    }
    if (m) { MockCheckedExpectedCall *got[MAXN + 1]; unsigned ng = view(src, got, MAXN + 1); if (ng != m) REPRODUCED("the source list changed its length"); for (unsigned k = 0; k < m; k++) if (got[k] != e[k]) REPRODUCED("the source list changed"); }
    // the expectations must still be alive (a pruning operation that released one is a use after free under the address sanitizer)
    for (unsigned i = 0; i < MAXN; i++) (void)e[i]->getActualCallsFulfilled();
    for (unsigned i = 0; i < MAXN; i++) delete e[i];
    NOT_REPRODUCED("%s agrees with the textbook result", op);
}
