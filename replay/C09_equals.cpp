// native replay: C09 MockNamedValue::equals on the 36 integer type pairs over the boundary lattice of the property's
// quantifier: equal iff same mathematical integer, and equals(a,b) == equals(b,a).  Runs the REAL function; returns 1
// iff some pair of values violates that.
// REPLAY-EXT
#include "CppUTest/TestHarness.h"
#include "CppUTestExt/MockNamedValue.h"
#include "replay.h"
typedef __int128 big;
static void store(MockNamedValue &v, int type, big x)
{
    switch (type) {
    case 1: v.setValue((int)x); break;
    case 2: v.setValue((unsigned int)x); break;
    case 3: v.setValue((long int)x); break;
    case 4: v.setValue((unsigned long int)x); break;
    case 5: v.setValue((long long)x); break;
    case 6: v.setValue((unsigned long long)x); break;
    }
}
static bool fits(big x, int type)
{
    switch (type) {
    case 1: return x >= -(big)2147483648LL && x <= 2147483647LL;
    case 2: return x >= 0 && x <= 4294967295LL;
    case 3: case 5: return x >= -((big)1 << 63) && x <= (((big)1 << 63) - 1);
    default: return x >= 0 && x <= (((big)1 << 64) - 1);
    }
}
int main(int argc, char **argv)
{
    r_init(argc, argv);
    static const char *tn[] = { "", "int", "unsigned int", "long int", "unsigned long int", "long long int", "unsigned long long int" };
    big p31 = (big)1 << 31, p32 = (big)1 << 32, p63 = (big)1 << 63, p64 = (big)1 << 64;
    big lattice[] = { -p63, -p63 + 1, -p31 - 1, -p31, -p31 + 1, -1, 0, 1, p31 - 1, p31, p31 + 1, p32 - 1, p32, p32 + 1, p63 - 1, p63, p63 + 1, p64 - 1 };
    const unsigned L = sizeof lattice / sizeof lattice[0];
    long n = 0;
    for (int ta = 1; ta <= 6; ta++) for (int tb = 1; tb <= 6; tb++)
        for (unsigned i = 0; i < L; i++) for (unsigned j = 0; j < L; j++) {
            big x = lattice[i], y = lattice[j];
            if (!fits(x, ta) || !fits(y, tb)) continue;
            MockNamedValue a("a"), b("b"); store(a, ta, x); store(b, tb, y);
            bool ab = a.equals(b), ba = b.equals(a); n++;
            if (ab != (x == y) || ba != ab) {
                printf("a: '%s' lattice[%u], b: '%s' lattice[%u] (same integer: %d): a.equals(b) = %d, b.equals(a) = %d\n", tn[ta], i, tn[tb], j, (int)(x == y), (int)ab, (int)ba);
                REPRODUCED("integer values do not compare by mathematical value in both directions");
            }
        }
    printf("%ld integer pairs\n", n);
    NOT_REPRODUCED("all integer pairs compare by mathematical value, symmetrically");
}
