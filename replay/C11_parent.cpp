// native replay: C11 parent side of GccPlatformSpecificRunTestInASeperateProcess.
// A counterexample of the loop-contract proof is one arbitrary iteration, not a run; this driver therefore does the
// bounded concrete search of DESIGN 2.6 step 2 natively: it scripts the fork/waitpid seams with every sequence of
// outcomes up to length 4 over a small alphabet, plus EINTR runs around the retry bound, calls the REAL function and
// checks the contract's postconditions.  Returns 1 iff some script violates them.
// REPLAY-INCLUDES: src/Platforms/Gcc/UtestPlatform.cpp
#include <sys/types.h>
#define kill verif_kill            /* the real code's kill(w, SIGCONT) must not signal a real process */
#include <signal.h>
#include "src/Platforms/Gcc/UtestPlatform.cpp"
#undef kill
#include "CppUTest/TestOutput.h"
#include "CppUTest/TestResult.h"
#include "replay.h"
#include <errno.h>

enum Outcome { O_EXIT0, O_EXIT3, O_SIG9, O_SIG126, O_STOP, O_CONT, O_EINTR, O_ECHILD, O_N };
static const char *oname[] = { "exit0", "exit3", "sig9", "sig126", "stop", "continued", "EINTR", "ECHILD" };
static int script[200]; static int script_len, script_pos, tail;   /* after the script: `tail` forever */
static int fork_ret;
static long kills, bad_kills, waits, events, stops, eintrs, last_w, last_status, last_errno, bad_waits;
static int word(int o) { switch (o) { case O_EXIT0: return 0; case O_EXIT3: return 3 << 8; case O_SIG9: return 9; case O_SIG126: return 126 | 0x80;
                                      case O_STOP: return (19 << 8) | 0x7f; case O_CONT: return 0xffff; } return 0; }
static int my_fork(void) { return fork_ret; }
static int my_waitpid(int pid, int *status, int options)
{
    int o = script_pos < script_len ? script[script_pos] : tail; script_pos++;
    waits++;
    if (pid != fork_ret || options != WUNTRACED) bad_waits++;
    if (waits > 10000) { printf("parent does not terminate on this script\n"); exit(1); }
    if (o == O_EINTR)  { errno = EINTR;  eintrs++; last_w = -1; last_errno = EINTR; return -1; }
    if (o == O_ECHILD) { errno = ECHILD; last_w = -1; last_errno = ECHILD; return -1; }
    *status = word(o); last_status = *status; last_w = 4242; errno = 0;
    if (o == O_EXIT3 || o == O_SIG9 || o == O_SIG126 || o == O_STOP) events++;
    if (o == O_STOP) stops++;
    return 4242;
}
extern "C" int verif_kill(pid_t pid, int sig) throw() { kills++; if (pid != last_w || sig != SIGCONT || (last_status & 0xff) != 0x7f) bad_kills++; return 0; }

static int run_script(const char *what)
{
    StringBufferTestOutput out; TestResult result(out); UtestShell shell("group", "name", "file.cpp", 1);
    kills = bad_kills = waits = events = stops = eintrs = bad_waits = 0; script_pos = 0; last_w = 0; last_status = 0; last_errno = 0;
    GccPlatformSpecificRunTestInASeperateProcess(&shell, NULLPTR, &result);
    long f = (long)result.getFailureCount();
    const char *txt = out.getOutput().asCharString();
    long f_fork = strstr(txt, "Call to fork() failed") ? 1 : 0, f_eintr = strstr(txt, "failed with EINTR") ? 1 : 0;
    long f_wait = (strstr(txt, "Call to waitpid() failed") && !f_eintr) ? 1 : 0;
    long err = f_fork + f_wait + f_eintr;
    const char *bad = 0;
    if (f != events + err || err > 1) bad = "failures added != events + (fork/wait error)";
    else if (f_fork != (fork_ret == -1)) bad = "fork failure not reported exactly once";
    else if (fork_ret == -1 && waits != 0) bad = "waited although fork failed";
    else if (fork_ret != -1 && f_wait != (last_w == -1 && last_errno != EINTR)) bad = "non-EINTR wait error not reported exactly once";
    else if (eintrs > 32 || f_eintr != (eintrs == 32)) bad = "EINTR retry bound / giving-up report";
    else if (err == 0 && !(last_w != -1 && ((last_status & 0x7f) == 0 || ((last_status & 0x7f) != 0x7f)))) bad = "returned although the child has neither exited nor been killed";
    else if (kills != stops || bad_kills) bad = "SIGCONT not issued exactly once per stop to the waited pid";
    else if (bad_waits) bad = "waitpid not called with the child's pid and WUNTRACED";
    if (bad) {
        printf("script %s: fork=%d waits=%ld events=%ld stops=%ld eintrs=%ld kills=%ld failures=%ld\n%s\n", what, fork_ret, waits, events, stops, eintrs, kills, f, txt);
        printf("REPRODUCED: %s\n", bad); return 1;
    }
    return 0;
}

int main(int argc, char **argv)
{
    r_init(argc, argv);
    PlatformSpecificFork = my_fork; PlatformSpecificWaitPid = my_waitpid;
    char what[400]; long n = 0;
    fork_ret = -1; script_len = 0; tail = O_EXIT0; if (run_script("fork fails")) return 1;
    fork_ret = 4242;
    /* every sequence of up to 4 outcomes, then the child exits cleanly / is killed */
    for (int len = 0; len <= 4; len++) {
        long total = 1; for (int i = 0; i < len; i++) total *= O_N;
        for (long code = 0; code < total; code++) {
            long c = code; what[0] = 0;
            for (int i = 0; i < len; i++) { script[i] = (int)(c % O_N); c /= O_N; strcat(what, oname[script[i]]); strcat(what, ","); }
            script_len = len;
            for (int t = 0; t < 2; t++) { tail = t ? O_SIG9 : O_EXIT0; n++; if (run_script(what)) return 1; }
        }
    }
    /* EINTR runs around the retry bound, alone and interleaved with stops */
    for (int k = 28; k <= 40; k++) {
        for (int mix = 0; mix < 3; mix++) {
            script_len = 0;
            for (int i = 0; i < k; i++) { script[script_len++] = O_EINTR; if (mix == 1 && i % 7 == 3) script[script_len++] = O_STOP; if (mix == 2 && i == 15) script[script_len++] = O_CONT; }
            snprintf(what, sizeof what, "%d x EINTR (mix %d)", k, mix);
            tail = O_EINTR; n++; if (run_script(what)) return 1;
            tail = O_EXIT0; n++; if (run_script(what)) return 1;
        }
    }
    printf("%ld scripted fork/waitpid outcome sequences\n", n);
    NOT_REPRODUCED("the real parent loop satisfies the contract on every scripted sequence");
}
