// native replay: C11 SetTestFailureByStatusCode on the real function: one failure per event, none for a clean exit
// REPLAY-INCLUDES: src/Platforms/Gcc/UtestPlatform.cpp
#include "src/Platforms/Gcc/UtestPlatform.cpp"
#include "CppUTest/TestOutput.h"
#include "CppUTest/TestResult.h"
#include "replay.h"
int main(int argc, char **argv)
{
    r_init(argc, argv);
    int status = (int)r_i64("status", 0);
    StringBufferTestOutput out;
    TestResult result(out);
    UtestShell shell("group", "name", "file.cpp", 1);
    size_t before = result.getFailureCount();
    SetTestFailureByStatusCode(&shell, &result, status);
    size_t added = result.getFailureCount() - before;
    /* Linux wait status encoding, written independently of <sys/wait.h> */
    bool exited = (status & 0x7f) == 0, stopped = (status & 0xff) == 0x7f, signaled = (status & 0x7f) != 0 && (status & 0x7f) != 0x7f;
    bool event = (exited && ((status >> 8) & 0xff) != 0) || signaled || stopped;
    const char *txt = out.getOutput().asCharString();
    printf("status=0x%08x exited=%d code=%d signaled=%d sig=%d stopped=%d -> %zu failure(s)\n", (unsigned)status, exited, (status >> 8) & 0xff, signaled, status & 0x7f, stopped, added);
    if (added != (event ? 1u : 0u)) REPRODUCED("expected %d failure(s) for this status word, the real function added %zu", event ? 1 : 0, added);
    if (signaled) {
        char want[80]; snprintf(want, sizeof want, "killed by signal %d", status & 0x7f);
        if (!strstr(txt, want)) REPRODUCED("message does not name the terminating signal: wanted '%s' in '%s'", want, txt);
    }
    if (stopped && !strstr(txt, "Stopped in separate process")) REPRODUCED("stopped child not reported as stopped: '%s'", txt);
    if (exited && event && !strstr(txt, "Failed in separate process")) REPRODUCED("non-zero exit not reported: '%s'", txt);
    NOT_REPRODUCED("real function agrees with the statement on this status word");
}
