// native replay: C13 replace(const char*, const char*) equals the textbook left-to-right non-overlapping replacement
#include "CppUTest/TestHarness.h"
#include "CppUTest/SimpleString.h"
#include "replay.h"
#include <string>
int main(int argc, char **argv)
{
    r_init(argc, argv);
    char s[5] = {(char)r_i64("s0",0),(char)r_i64("s1",0),(char)r_i64("s2",0),(char)r_i64("s3",0),0};
    char t[4] = {(char)r_i64("t0",'a'),(char)r_i64("t1",0),(char)r_i64("t2",0),0};
    char w[3] = {(char)r_i64("w0",0),(char)r_i64("w1",0),0};
    std::string sub(s), to(t), with(w), want;
    for (size_t i = 0; i < sub.size();) { if (!to.empty() && sub.compare(i, to.size(), to) == 0) { want += with; i += to.size(); } else want += sub[i++]; }
    SimpleString str(s);
    str.replace(t, w);     // a sanitizer report here is a reproduction too (non-zero exit)
    printf("\"%s\".replace(\"%s\", \"%s\"): real result of length %zu, textbook result of length %zu\n", s, t, w, str.size(), want.size());
    if (want != str.asCharString()) REPRODUCED("replace differs from the textbook replacement");
    NOT_REPRODUCED("agrees");
}
