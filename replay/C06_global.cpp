// native replay for proof global_operators.routing (C06 / C05): each global operator new / delete form and C entry point of the
// real MemoryLeakWarningPlugin.cpp must reach the slot of its own family exactly once with the caller's arguments.
// usage: C06_global form=<0..20> (19, 20: the C++14 sized release forms) [size= line= iline=]
// REPLAY-INCLUDES: src/CppUTest/MemoryLeakWarningPlugin.cpp
// REPLAY-STD: c++14
#include "src/CppUTest/MemoryLeakWarningPlugin.cpp"
#include "replay.h"
#include <new>
static int n[11]; static size_t r_size, r_line; static const char *r_file; static void *r_mem; static char block[64], retblock[64];
static void *rec_new(size_t s) { n[0]++; r_size = s; return retblock; }
static void *rec_new_nothrow(size_t s) { n[1]++; r_size = s; return retblock; }
static void *rec_new_debug(size_t s, const char *f, size_t l) { n[2]++; r_size = s; r_file = f; r_line = l; return retblock; }
static void *rec_newa(size_t s) { n[3]++; r_size = s; return retblock; }
static void *rec_newa_nothrow(size_t s) { n[4]++; r_size = s; return retblock; }
static void *rec_newa_debug(size_t s, const char *f, size_t l) { n[5]++; r_size = s; r_file = f; r_line = l; return retblock; }
static void rec_del(void *m) { n[6]++; r_mem = m; }
static void rec_dela(void *m) { n[7]++; r_mem = m; }
static void *rec_malloc(size_t s, const char *f, size_t l) { n[8]++; r_size = s; r_file = f; r_line = l; return retblock; }
static void *rec_realloc(void *m, size_t s, const char *f, size_t l) { n[9]++; r_mem = m; r_size = s; r_file = f; r_line = l; return retblock; }
static void rec_free(void *m, const char *f, size_t l) { n[10]++; r_mem = m; r_file = f; r_line = l; }
static const char *slot[11] = { "new", "new nothrow", "new debug", "new[]", "new[] nothrow", "new[] debug", "delete", "delete[]", "malloc", "realloc", "free" };
int main(int argc, char **argv)
{
    r_init(argc, argv);
    unsigned form = (unsigned) r_u64("form", 15); size_t size = (size_t) r_u64("size", 24), line = (size_t) r_u64("line", 7); int iline = (int) r_u64("iline", 9);
    const char *file = "caller.cpp"; void *mem = block, *r = retblock;
    /* keep the real slots for the replay machinery itself */
    void *(*s0)(size_t) = operator_new_fptr; void *(*s1)(size_t) = operator_new_nothrow_fptr; void *(*s2)(size_t, const char*, size_t) = operator_new_debug_fptr;
    void *(*s3)(size_t) = operator_new_array_fptr; void *(*s4)(size_t) = operator_new_array_nothrow_fptr; void *(*s5)(size_t, const char*, size_t) = operator_new_array_debug_fptr;
    void (*s6)(void*) = operator_delete_fptr; void (*s7)(void*) = operator_delete_array_fptr;
    void *(*s8)(size_t, const char*, size_t) = malloc_fptr; void *(*s9)(void*, size_t, const char*, size_t) = realloc_fptr; void (*s10)(void*, const char*, size_t) = free_fptr;
    operator_new_fptr = rec_new; operator_new_nothrow_fptr = rec_new_nothrow; operator_new_debug_fptr = rec_new_debug;
    operator_new_array_fptr = rec_newa; operator_new_array_nothrow_fptr = rec_newa_nothrow; operator_new_array_debug_fptr = rec_newa_debug;
    operator_delete_fptr = rec_del; operator_delete_array_fptr = rec_dela; malloc_fptr = rec_malloc; realloc_fptr = rec_realloc; free_fptr = rec_free;
    int want; bool loc = false, isrel = false; size_t wline = line;
    switch (form) {
    case 0: r = ::operator new(size); want = 0; break;
    case 1: r = ::operator new(size, file, iline); want = 2; loc = true; wline = (size_t) iline; break;
    case 2: r = ::operator new(size, file, line); want = 2; loc = true; break;
    case 3: r = ::operator new(size, std::nothrow); want = 1; break;
    case 4: r = ::operator new[](size); want = 3; break;
    case 5: r = ::operator new[](size, file, iline); want = 5; loc = true; wline = (size_t) iline; break;
    case 6: r = ::operator new[](size, file, line); want = 5; loc = true; break;
    case 7: r = ::operator new[](size, std::nothrow); want = 4; break;
    case 8: ::operator delete(mem); want = 6; isrel = true; break;
    case 9: ::operator delete(mem, file, iline); want = 6; isrel = true; break;
    case 10: ::operator delete(mem, file, line); want = 6; isrel = true; break;
    case 11: ::operator delete(mem, std::nothrow); want = 6; isrel = true; break;
    case 12: ::operator delete[](mem); want = 7; isrel = true; break;
    case 13: ::operator delete[](mem, file, iline); want = 7; isrel = true; break;
    case 14: ::operator delete[](mem, file, line); want = 7; isrel = true; break;
    case 15: ::operator delete[](mem, std::nothrow); want = 7; isrel = true; break;
    case 16: r = cpputest_malloc_location_with_leak_detection(size, file, line); want = 8; loc = true; break;
    case 17: r = cpputest_realloc_location_with_leak_detection(mem, size, file, line); want = 9; loc = true; break;
#if __cplusplus >= 201402L
    case 19: ::operator delete(mem, size); want = 6; isrel = true; break;
    case 20: ::operator delete[](mem, size); want = 7; isrel = true; break;
#endif
    default: cpputest_free_location_with_leak_detection(mem, file, line); want = 10; isrel = true; loc = true; break;
    }
    operator_new_fptr = s0; operator_new_nothrow_fptr = s1; operator_new_debug_fptr = s2; operator_new_array_fptr = s3; operator_new_array_nothrow_fptr = s4; operator_new_array_debug_fptr = s5;
    operator_delete_fptr = s6; operator_delete_array_fptr = s7; malloc_fptr = s8; realloc_fptr = s9; free_fptr = s10;
    int total = 0; for (int i = 0; i < 11; i++) total += n[i];
    printf("form %u: slot calls:", form); for (int i = 0; i < 11; i++) if (n[i]) printf(" %s=%d", slot[i], n[i]); printf(" (wanted: %s once)\n", slot[want]);
    if (n[want] != 1 || total != 1) REPRODUCED("form %u does not reach the '%s' slot exactly once (calls to it: %d, calls to all slots: %d)", form, slot[want], n[want], total);
    if ((isrel || form == 17) && r_mem != mem) REPRODUCED("a different block reaches the slot");
    if (!isrel && r_size != size) REPRODUCED("a different size reaches the slot");
    if (loc && (r_file != file || r_line != wline)) REPRODUCED("a different location reaches the slot");
    if (!isrel && r != retblock) REPRODUCED("the slot's result is not handed back");
    NOT_REPRODUCED("own family's slot, once, caller's arguments");
}
