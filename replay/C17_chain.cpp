// native replay: C17 pre/post action order over a chain of n <= 4 installed plugins with enabled pattern en0..en3
#include "CppUTest/TestHarness.h"
#include "CppUTest/TestRegistry.h"
#include "CppUTest/TestPlugin.h"
#include "CppUTest/TestOutput.h"
#include "replay.h"
static int logv[32], nlog;
class Rec : public TestPlugin {
public:
    int idx;
    Rec(const char *nm, int i) : TestPlugin(nm), idx(i) {}
    virtual void preTestAction(UtestShell&, TestResult&) { logv[nlog++] = 2 * idx; }
    virtual void postTestAction(UtestShell&, TestResult&) { logv[nlog++] = 2 * idx + 1; }
};
int main(int argc, char **argv)
{
    r_init(argc, argv);
    unsigned n = (unsigned) r_u64("n", 4); if (n > 4) n = 4;
    Rec p0("p0", 0), p1("p1", 1), p2("p2", 2), p3("p3", 3); Rec *p[4] = {&p0, &p1, &p2, &p3};
    bool en[4]; char key[8];
    for (int i = 0; i < 4; i++) { sprintf(key, "en%d", i); en[i] = (r_u64(key, 1) & 1) != 0; if (!en[i]) p[i]->disable(); }
    TestRegistry reg;
    for (unsigned i = 0; i < n; i++) reg.installPlugin(p[i]);
    UtestShell shell("group", "name", "file", 1); StringBufferTestOutput out; TestResult res(out);
    reg.getFirstPlugin()->runAllPreTestAction(shell, res);
    reg.getFirstPlugin()->runAllPostTestAction(shell, res);
    int want[16], w = 0;
    for (int i = (int) n - 1; i >= 0; i--) if (en[i]) want[w++] = 2 * i;
    for (int i = 0; i < (int) n; i++) if (en[i]) want[w++] = 2 * i + 1;
    bool bad = w != nlog;
    for (int i = 0; i < w && !bad; i++) bad = want[i] != logv[i];
    printf("log:"); for (int i = 0; i < nlog; i++) printf(" %s%d", (logv[i] & 1) ? "post" : "pre", logv[i] / 2); printf("\n");
    if (bad) REPRODUCED("plugin actions are not nested as stated");
    NOT_REPRODUCED("pre actions last-installed first, post actions in reverse, disabled plugins silent");
}
