// native replay: C17 TestRegistry::removePluginByName on a chain of n <= 4 plugins p0..p3 (p0 first), removing the one at position k
#include "CppUTest/TestHarness.h"
#include "CppUTest/TestRegistry.h"
#include "CppUTest/TestPlugin.h"
#include "replay.h"
int main(int argc, char **argv)
{
    r_init(argc, argv);
    unsigned n = (unsigned) r_u64("n", 4), k = (unsigned) r_u64("k", 2); if (n > 4) n = 4;
    TestPlugin p0("p0"), p1("p1"), p2("p2"), p3("p3"); TestPlugin *p[4] = {&p0, &p1, &p2, &p3};
    TestRegistry reg;
    for (int i = (int) n - 1; i >= 0; i--) reg.installPlugin(p[i]);      // p0 ends up first
    const char *names[5] = {"p0", "p1", "p2", "p3", "absent"};
    const char *name = k < n ? names[k] : "absent";
    int before = reg.countPlugins();
    reg.removePluginByName(name);
    int after = reg.countPlugins();
    bool stillThere = reg.getPluginByName(name) != NULLPTR;
    printf("chain of %d plugins, removePluginByName(\"%s\") at position %u: %d plugins left, named plugin %s\n", before, name, k, after, stillThere ? "STILL INSTALLED" : "gone");
    if (after != before - (k < n ? 1 : 0) || stillThere) REPRODUCED("the named plugin was not removed (or another one was)");
    NOT_REPRODUCED("exactly the named plugin was removed");
}
