// native replay: C20 TeamCityTestOutput::printEscaped on the string in0 in1 in2: the bytes handed to printBuffer,
// decoded by the TeamCity service-message rules, must give back the original text and contain no bare ' | [ ] CR LF
#define private public
#define protected public
#include "CppUTest/TestHarness.h"
#include "CppUTest/TeamCityTestOutput.h"
#include "replay.h"
static char outbuf[64]; static size_t outn; static int chunks, badchunk;
class Capture : public TeamCityTestOutput {
public:
    virtual void printBuffer(const char *s) { size_t l = strlen(s); chunks++; if (l < 1 || l > 2) badchunk++; for (size_t i = 0; i < l && outn < sizeof(outbuf) - 1; i++) outbuf[outn++] = s[i]; }
};
int main(int argc, char **argv)
{
    r_init(argc, argv);
    char in[4] = { (char) r_i64("in0", '['), (char) r_i64("in1", '\n'), (char) r_i64("in2", 'x'), 0 };
    Capture out;
    out.printEscaped(in);
    outbuf[outn] = 0;
    size_t len = strlen(in);
    printf("input bytes: %d %d %d -> output \"", in[0], in[1], in[2]); for (size_t i = 0; i < outn; i++) printf("\\x%02x", (unsigned char) outbuf[i]); printf("\" in %d chunks\n", chunks);
    if ((size_t) chunks != len) REPRODUCED("%d chunks for %zu input bytes", chunks, len);
    if (badchunk) REPRODUCED("a chunk is not a 1- or 2-byte string");
    // independent decoder (TeamCity rules)
    char dec[16]; size_t dn = 0;
    for (size_t i = 0; i < outn; i++) {
        char c = outbuf[i];
        if (c == '\'' || c == '[' || c == ']' || c == '\n' || c == '\r') REPRODUCED("unescaped special byte %d at output offset %zu: the value would end the message early", c, i);
        if (c == '|') {
            if (i + 1 >= outn) REPRODUCED("dangling escape bar");
            char e = outbuf[++i];
            if (e == 'n') dec[dn++] = '\n'; else if (e == 'r') dec[dn++] = '\r';
            else if (e == '\'' || e == '|' || e == '[' || e == ']') dec[dn++] = e;
            else REPRODUCED("escape |%c is not one TeamCity defines for these characters", e);
        } else dec[dn++] = c;
    }
    if (dn != len || memcmp(dec, in, len) != 0) REPRODUCED("decoding the output does not give back the input");
    NOT_REPRODUCED("escaped output decodes to the input");
}
