// native replay: C05 "an underlying realloc that fails yields NULL and leaves every existing block valid and still tracked"
#include "CppUTest/TestHarness.h"
#include "CppUTest/MemoryLeakDetector.h"
#include "CppUTest/TestMemoryAllocator.h"
#include "CppUTest/PlatformSpecificFunctions.h"
#include "replay.h"
struct Reporter : MemoryLeakFailure { int n; Reporter() : n(0) {} void fail(char*) { n++; } };
static void* failing_realloc(void*, size_t) { return 0; }
static void *watched; static int watched_frees; static void (*real_free)(void*);
static void watching_free(void *m) { if (m && m == watched) { watched_frees++; return; } real_free(m); }   /* the watched block is kept, so the rest of the driver stays defined */
int main(int argc, char **argv)
{
    r_init(argc, argv);
    size_t size = (size_t) r_u64("size", 100);
    bool sep = r_u64("allocatNodesSeperately", r_u64("sep", 1)) != 0;
    bool fails = r_u64("g_realloc_fails", 1) != 0;
    Reporter rep; MemoryLeakDetector det(&rep);
    det.enable();
    TestMemoryAllocator* a = defaultMallocAllocator();
    char *p = det.allocMemory(a, 16, "old.c", 7, sep);
    if (!p) NOT_REPRODUCED("could not allocate");
    p[0] = 'x';
    void* (*saved)(void*, size_t) = PlatformSpecificRealloc;
    if (fails || size > ((size_t)1 << 40)) PlatformSpecificRealloc = failing_realloc;
    watched = p; real_free = PlatformSpecificFree; PlatformSpecificFree = watching_free;
    char *q = det.reallocMemory(a, p, size, "new.c", 9, sep);
    PlatformSpecificRealloc = saved; PlatformSpecificFree = real_free;
    size_t tracked = det.totalMemoryLeaks(mem_leak_period_all);
    printf("reallocMemory(16 -> %zu, separate=%d, underlying realloc %s): result %p, tracked blocks afterwards %zu, reports %d\n", size, (int)sep, fails ? "fails" : "works", (void*)q, tracked, rep.n);
    if (q == 0) {
        if (watched_frees) REPRODUCED("realloc returned NULL but handed the old block back to the platform (%d free call(s)): the block is dangling yet still tracked", watched_frees);
        if (tracked != 1) REPRODUCED("realloc failed but the old block is no longer tracked (tracked = %zu)", tracked);
        det.deallocMemory(a, p, "f.c", 1, sep);
        if (rep.n != 0 || det.totalMemoryLeaks(mem_leak_period_all) != 0) REPRODUCED("old block cannot be released normally after the failed realloc");
        NOT_REPRODUCED("old block still tracked and releasable");
    }
    if (tracked != 1) REPRODUCED("after a successful realloc exactly one block must be tracked, got %zu", tracked);
    NOT_REPRODUCED("ok");
}
