// native replay for C13 proof printable.bounded: the real SimpleString::printable() on the text (c0, c1, c2) against the
// textbook rendering (C escapes for 7..13, \xHH with the hex digits of the byte for every other byte outside 0x20..0x7E)
#include "CppUTest/TestHarness.h"
#include "CppUTest/SimpleString.h"
#include "replay.h"
int main(int argc, char **argv)
{
    r_init(argc, argv);
    char t[4]; t[0] = (char) r_u64("c0", 0xE0); t[1] = (char) r_u64("c1", 0); t[2] = (char) r_u64("c2", 0); t[3] = 0;
    char want[16]; size_t w = 0;
    for (size_t i = 0; t[i]; i++) {
        unsigned char b = (unsigned char) t[i];
        if (b >= 7 && b <= 13) { want[w++] = '\\'; want[w++] = "abtnvfr"[b - 7]; }
        else if (b < 0x20 || b >= 0x7F) { static const char *hx = "0123456789ABCDEF"; want[w++] = '\\'; want[w++] = 'x'; want[w++] = hx[b >> 4]; want[w++] = hx[b & 15]; }
        else want[w++] = (char) b;
    }
    want[w] = 0;
    SimpleString p = SimpleString(t).printable();
    printf("bytes %02X %02X %02X: printable() = \"%s\", textbook = \"%s\"\n", (unsigned char) t[0], (unsigned char) t[1], (unsigned char) t[2], p.asCharString(), want);
    if (strcmp(p.asCharString(), want)) REPRODUCED("printable() shows a different byte value than the operand holds");
    NOT_REPRODUCED("printable() is the textbook rendering");
}
