// native replay: C19 forwarder wiring.  One one-call scenario is run twice against the real CppUTestExt sources - once with the
// entry point under test reached through the C interface (mock_c()), once through the C++ interface (mock()) - inside a real
// TestTestingFixture run each.  REPRODUCED (exit 1) iff the two runs differ in verdict (failure count), returned value, or type tag.
//
// usage: C19_forwarders <entry> [name=value ...]
//   <entry> (the argument without '='):
//     with<T>Parameters            MockExpectedCall_c slot: expectation through C, actual call through C++
//     actual.with<T>Parameters     MockActualCall_c slot:  expectation through C++, actual call through C
//     andReturn<T>Value            return value set through C, read through C++ (typed getter and type name)
//     actual.<t>ReturnValue        return value set through C++, read through the C typed getter
//     actual.return<T>ValueOrDefault   same, with / without a return value (g_act_has), default = defaultValue
//     actual.returnValue           every type: the tag and the union member of the MockValue_c against the C++ type name and getter
//     set<T>Data                   data store written through C, read through C++ (type name, typed getter) and through getData of C
//     receiver                     two scopes: the C return-value entries of MockSupport_c / hasReturnValue of MockActualCall_c
//                                  against the C++ methods of the same name (see contracts/C19.undecided.txt)
//     stale                        MockSupport_c.intReturnValue after clear(): the static actual-call pointer dangles (sanitizer report = exit != 0)
//   <T> = Bool Int UnsignedInt LongInt UnsignedLongInt LongLongInt UnsignedLongLongInt Double String Pointer ConstPointer
//   value=...  (or g_ret_<kind>=... for the getters; defaultValue=..., g_act_has=...): the counterexample of the proof; without
//   it, and in addition to it, the boundary values 0, 1, 2, -1, 2^31, 2^32+5, 2^63, 2^63-1 (0.5, -0.0, 1e300, -1, 0.1 for double) are run.
// REPLAY-EXT
#include "CppUTest/TestHarness.h"
#include "CppUTest/TestRegistry.h"
#include "CppUTest/TestOutput.h"
#include "CppUTest/TestTestingFixture.h"
#include "CppUTestExt/MockSupport.h"
#include "CppUTestExt/MockSupport_c.h"
#include "replay.h"

enum Kind { K_Bool, K_Int, K_UnsignedInt, K_LongInt, K_UnsignedLongInt, K_LongLongInt, K_UnsignedLongLongInt, K_Double, K_String, K_Pointer, K_ConstPointer, K_NONE };
static const char *kindName[] = { "Bool", "Int", "UnsignedInt", "LongInt", "UnsignedLongInt", "LongLongInt", "UnsignedLongLongInt", "Double", "String", "Pointer", "ConstPointer" };
static const char *kindGhost[] = { "bool", "int", "uint", "long", "ulong", "llong", "ullong", "double", "str", "ptr", "cptr" };
static const char *cppTypeName[] = { "bool", "int", "unsigned int", "long int", "unsigned long int", "long long int", "unsigned long long int", "double", "const char*", "void*", "const void*" };
static const MockValueType_c tagOf[] = { MOCKVALUETYPE_BOOL, MOCKVALUETYPE_INTEGER, MOCKVALUETYPE_UNSIGNED_INTEGER, MOCKVALUETYPE_LONG_INTEGER,
    MOCKVALUETYPE_UNSIGNED_LONG_INTEGER, MOCKVALUETYPE_LONG_LONG_INTEGER, MOCKVALUETYPE_UNSIGNED_LONG_LONG_INTEGER, MOCKVALUETYPE_DOUBLE,
    MOCKVALUETYPE_STRING, MOCKVALUETYPE_POINTER, MOCKVALUETYPE_CONST_POINTER };

/* one value of any kind: the 64 bits the counterexample gives, read per kind */
struct Val { uint64_t bits; double d; };
static char text1[] = "text-one"; static char text2[] = "text-two";
static const char *asString(const Val& v) { return (v.bits & 1) ? text1 : text2; }     /* strings: one of two distinct texts */
static void *asPointer(const Val& v) { return (void *)(uintptr_t)v.bits; }

/* ---- scenario state (file scope: the test body is a plain function) ---- */
static Kind kind; static Val val, dflt; static bool viaC; static int hasRet; static const char *mode;
static uint64_t gotBits; static double gotD; static SimpleString gotType; static int gotTag; static uint64_t gotUnion; static double gotUnionD;
static const char *gotStr;

static void expectParamCpp(MockExpectedCall& e)
{
    switch (kind) {
    case K_Bool: e.withParameter("p", (int)val.bits != 0); break;
    case K_Int: e.withParameter("p", (int)val.bits); break;
    case K_UnsignedInt: e.withParameter("p", (unsigned int)val.bits); break;
    case K_LongInt: e.withParameter("p", (long int)val.bits); break;
    case K_UnsignedLongInt: e.withParameter("p", (unsigned long int)val.bits); break;
    case K_LongLongInt: e.withParameter("p", (cpputest_longlong)val.bits); break;
    case K_UnsignedLongLongInt: e.withParameter("p", (cpputest_ulonglong)val.bits); break;
    case K_Double: e.withParameter("p", val.d); break;
    case K_String: e.withParameter("p", asString(val)); break;
    case K_Pointer: e.withParameter("p", asPointer(val)); break;
    case K_ConstPointer: e.withParameter("p", (const void *)asPointer(val)); break;
    default: break;
    }
}
static void expectParamC(MockExpectedCall_c *e)
{
    switch (kind) {
    case K_Bool: e->withBoolParameters("p", (int)val.bits); break;
    case K_Int: e->withIntParameters("p", (int)val.bits); break;
    case K_UnsignedInt: e->withUnsignedIntParameters("p", (unsigned int)val.bits); break;
    case K_LongInt: e->withLongIntParameters("p", (long int)val.bits); break;
    case K_UnsignedLongInt: e->withUnsignedLongIntParameters("p", (unsigned long int)val.bits); break;
    case K_LongLongInt: e->withLongLongIntParameters("p", (cpputest_longlong)val.bits); break;
    case K_UnsignedLongLongInt: e->withUnsignedLongLongIntParameters("p", (cpputest_ulonglong)val.bits); break;
    case K_Double: e->withDoubleParameters("p", val.d); break;
    case K_String: e->withStringParameters("p", asString(val)); break;
    case K_Pointer: e->withPointerParameters("p", asPointer(val)); break;
    case K_ConstPointer: e->withConstPointerParameters("p", (const void *)asPointer(val)); break;
    default: break;
    }
}
static void actualParamCpp(MockActualCall& a)
{
    switch (kind) {
    case K_Bool: a.withParameter("p", (int)val.bits != 0); break;
    case K_Int: a.withParameter("p", (int)val.bits); break;
    case K_UnsignedInt: a.withParameter("p", (unsigned int)val.bits); break;
    case K_LongInt: a.withParameter("p", (long int)val.bits); break;
    case K_UnsignedLongInt: a.withParameter("p", (unsigned long int)val.bits); break;
    case K_LongLongInt: a.withParameter("p", (cpputest_longlong)val.bits); break;
    case K_UnsignedLongLongInt: a.withParameter("p", (cpputest_ulonglong)val.bits); break;
    case K_Double: a.withParameter("p", val.d); break;
    case K_String: a.withParameter("p", asString(val)); break;
    case K_Pointer: a.withParameter("p", asPointer(val)); break;
    case K_ConstPointer: a.withParameter("p", (const void *)asPointer(val)); break;
    default: break;
    }
}
static void actualParamC(MockActualCall_c *a)
{
    switch (kind) {
    case K_Bool: a->withBoolParameters("p", (int)val.bits); break;
    case K_Int: a->withIntParameters("p", (int)val.bits); break;
    case K_UnsignedInt: a->withUnsignedIntParameters("p", (unsigned int)val.bits); break;
    case K_LongInt: a->withLongIntParameters("p", (long int)val.bits); break;
    case K_UnsignedLongInt: a->withUnsignedLongIntParameters("p", (unsigned long int)val.bits); break;
    case K_LongLongInt: a->withLongLongIntParameters("p", (cpputest_longlong)val.bits); break;
    case K_UnsignedLongLongInt: a->withUnsignedLongLongIntParameters("p", (cpputest_ulonglong)val.bits); break;
    case K_Double: a->withDoubleParameters("p", val.d); break;
    case K_String: a->withStringParameters("p", asString(val)); break;
    case K_Pointer: a->withPointerParameters("p", asPointer(val)); break;
    case K_ConstPointer: a->withConstPointerParameters("p", (const void *)asPointer(val)); break;
    default: break;
    }
}
static void andReturnCpp(MockExpectedCall& e)
{
    switch (kind) {
    case K_Bool: e.andReturnValue((int)val.bits != 0); break;
    case K_Int: e.andReturnValue((int)val.bits); break;
    case K_UnsignedInt: e.andReturnValue((unsigned int)val.bits); break;
    case K_LongInt: e.andReturnValue((long int)val.bits); break;
    case K_UnsignedLongInt: e.andReturnValue((unsigned long int)val.bits); break;
    case K_LongLongInt: e.andReturnValue((cpputest_longlong)val.bits); break;
    case K_UnsignedLongLongInt: e.andReturnValue((cpputest_ulonglong)val.bits); break;
    case K_Double: e.andReturnValue(val.d); break;
    case K_String: e.andReturnValue(asString(val)); break;
    case K_Pointer: e.andReturnValue(asPointer(val)); break;
    case K_ConstPointer: e.andReturnValue((const void *)asPointer(val)); break;
    default: break;
    }
}
static void andReturnC(MockExpectedCall_c *e)
{
    switch (kind) {
    case K_Bool: e->andReturnBoolValue((int)val.bits); break;
    case K_Int: e->andReturnIntValue((int)val.bits); break;
    case K_UnsignedInt: e->andReturnUnsignedIntValue((unsigned int)val.bits); break;
    case K_LongInt: e->andReturnLongIntValue((long int)val.bits); break;
    case K_UnsignedLongInt: e->andReturnUnsignedLongIntValue((unsigned long int)val.bits); break;
    case K_LongLongInt: e->andReturnLongLongIntValue((cpputest_longlong)val.bits); break;
    case K_UnsignedLongLongInt: e->andReturnUnsignedLongLongIntValue((cpputest_ulonglong)val.bits); break;
    case K_Double: e->andReturnDoubleValue(val.d); break;
    case K_String: e->andReturnStringValue(asString(val)); break;
    case K_Pointer: e->andReturnPointerValue(asPointer(val)); break;
    case K_ConstPointer: e->andReturnConstPointerValue((const void *)asPointer(val)); break;
    default: break;
    }
}
static void store(uint64_t b) { gotBits = b; }
static void readCpp(MockActualCall& a, bool orDefault)
{
    switch (kind) {
    case K_Bool: store(orDefault ? a.returnBoolValueOrDefault(dflt.bits != 0) : a.returnBoolValue()); break;
    case K_Int: store((uint64_t)(int64_t)(orDefault ? a.returnIntValueOrDefault((int)dflt.bits) : a.returnIntValue())); break;
    case K_UnsignedInt: store(orDefault ? a.returnUnsignedIntValueOrDefault((unsigned)dflt.bits) : a.returnUnsignedIntValue()); break;
    case K_LongInt: store((uint64_t)(orDefault ? a.returnLongIntValueOrDefault((long)dflt.bits) : a.returnLongIntValue())); break;
    case K_UnsignedLongInt: store(orDefault ? a.returnUnsignedLongIntValueOrDefault((unsigned long)dflt.bits) : a.returnUnsignedLongIntValue()); break;
    case K_LongLongInt: store((uint64_t)(orDefault ? a.returnLongLongIntValueOrDefault((cpputest_longlong)dflt.bits) : a.returnLongLongIntValue())); break;
    case K_UnsignedLongLongInt: store(orDefault ? a.returnUnsignedLongLongIntValueOrDefault((cpputest_ulonglong)dflt.bits) : a.returnUnsignedLongLongIntValue()); break;
    case K_Double: gotD = orDefault ? a.returnDoubleValueOrDefault(dflt.d) : a.returnDoubleValue(); memcpy(&gotBits, &gotD, 8); break;
    case K_String: gotStr = orDefault ? a.returnStringValueOrDefault(asString(dflt)) : a.returnStringValue(); store((uint64_t)(uintptr_t)gotStr); break;
    case K_Pointer: store((uint64_t)(uintptr_t)(orDefault ? a.returnPointerValueOrDefault(asPointer(dflt)) : a.returnPointerValue())); break;
    case K_ConstPointer: store((uint64_t)(uintptr_t)(orDefault ? a.returnConstPointerValueOrDefault(asPointer(dflt)) : a.returnConstPointerValue())); break;
    default: break;
    }
}
static void readC(MockActualCall_c *a, bool orDefault)
{
    switch (kind) {
    case K_Bool: store((uint64_t)(orDefault ? a->returnBoolValueOrDefault((int)(dflt.bits != 0)) : a->boolReturnValue())); break;
    case K_Int: store((uint64_t)(int64_t)(orDefault ? a->returnIntValueOrDefault((int)dflt.bits) : a->intReturnValue())); break;
    case K_UnsignedInt: store(orDefault ? a->returnUnsignedIntValueOrDefault((unsigned)dflt.bits) : a->unsignedIntReturnValue()); break;
    case K_LongInt: store((uint64_t)(orDefault ? a->returnLongIntValueOrDefault((long)dflt.bits) : a->longIntReturnValue())); break;
    case K_UnsignedLongInt: store(orDefault ? a->returnUnsignedLongIntValueOrDefault((unsigned long)dflt.bits) : a->unsignedLongIntReturnValue()); break;
    case K_LongLongInt: store((uint64_t)(orDefault ? a->returnLongLongIntValueOrDefault((cpputest_longlong)dflt.bits) : a->longLongIntReturnValue())); break;
    case K_UnsignedLongLongInt: store(orDefault ? a->returnUnsignedLongLongIntValueOrDefault((cpputest_ulonglong)dflt.bits) : a->unsignedLongLongIntReturnValue()); break;
    case K_Double: gotD = orDefault ? a->returnDoubleValueOrDefault(dflt.d) : a->doubleReturnValue(); memcpy(&gotBits, &gotD, 8); break;
    case K_String: gotStr = orDefault ? a->returnStringValueOrDefault(asString(dflt)) : a->stringReturnValue(); store((uint64_t)(uintptr_t)gotStr); break;
    case K_Pointer: store((uint64_t)(uintptr_t)(orDefault ? a->returnPointerValueOrDefault(asPointer(dflt)) : a->pointerReturnValue())); break;
    case K_ConstPointer: store((uint64_t)(uintptr_t)(orDefault ? a->returnConstPointerValueOrDefault(asPointer(dflt)) : a->constPointerReturnValue())); break;
    default: break;
    }
}
static void unionOf(const MockValue_c& v)
{
    gotTag = (int)v.type; gotUnion = 0;
    switch (kind) {
    case K_Bool: gotUnion = (uint64_t)(v.value.boolValue != 0); break;
    case K_Int: gotUnion = (uint64_t)(int64_t)v.value.intValue; break;
    case K_UnsignedInt: gotUnion = v.value.unsignedIntValue; break;
    case K_LongInt: gotUnion = (uint64_t)v.value.longIntValue; break;
    case K_UnsignedLongInt: gotUnion = v.value.unsignedLongIntValue; break;
    case K_LongLongInt: gotUnion = (uint64_t)v.value.longLongIntValue; break;
    case K_UnsignedLongLongInt: gotUnion = v.value.unsignedLongLongIntValue; break;
    case K_Double: gotUnionD = v.value.doubleValue; memcpy(&gotUnion, &gotUnionD, 8); break;
    case K_String: gotUnion = (uint64_t)(uintptr_t)v.value.stringValue; break;
    case K_Pointer: gotUnion = (uint64_t)(uintptr_t)v.value.pointerValue; break;
    case K_ConstPointer: gotUnion = (uint64_t)(uintptr_t)v.value.constPointerValue; break;
    default: break;
    }
}
static uint64_t expectedBits()
{
    switch (kind) {
    case K_Bool: return (int)val.bits != 0;
    case K_Int: return (uint64_t)(int64_t)(int)val.bits;
    case K_UnsignedInt: return (unsigned int)val.bits;
    case K_Double: { uint64_t b; memcpy(&b, &val.d, 8); return b; }
    case K_String: return (uint64_t)(uintptr_t)asString(val);
    default: return val.bits;
    }
}
static void setDataCpp()
{
    switch (kind) {
    case K_Bool: mock().setData("n", (int)val.bits != 0); break;
    case K_Int: mock().setData("n", (int)val.bits); break;
    case K_UnsignedInt: mock().setData("n", (unsigned int)val.bits); break;
    case K_Double: mock().setData("n", val.d); break;
    case K_String: mock().setData("n", asString(val)); break;
    case K_Pointer: mock().setData("n", asPointer(val)); break;
    case K_ConstPointer: mock().setData("n", (const void *)asPointer(val)); break;
    default: break;
    }
}
static void setDataC()
{
    switch (kind) {
    case K_Bool: mock_c()->setBoolData("n", (int)val.bits); break;
    case K_Int: mock_c()->setIntData("n", (int)val.bits); break;
    case K_UnsignedInt: mock_c()->setUnsignedIntData("n", (unsigned int)val.bits); break;
    case K_Double: mock_c()->setDoubleData("n", val.d); break;
    case K_String: mock_c()->setStringData("n", asString(val)); break;
    case K_Pointer: mock_c()->setPointerData("n", asPointer(val)); break;
    case K_ConstPointer: mock_c()->setConstPointerData("n", (const void *)asPointer(val)); break;
    default: break;
    }
}

/* ---- the test bodies: one scenario, the entry point under test through C (viaC) or through C++ ---- */
static void body()
{
    mock().clear();
    gotBits = 0; gotTag = -1; gotUnion = 0; gotType = "";
    if (!strcmp(mode, "expected.param")) {
        if (viaC) expectParamC(mock_c()->expectOneCall("f")); else expectParamCpp(mock().expectOneCall("f"));
        actualParamCpp(mock().actualCall("f"));
        mock().checkExpectations();
    } else if (!strcmp(mode, "actual.param")) {
        expectParamCpp(mock().expectOneCall("f"));
        if (viaC) actualParamC(mock_c()->actualCall("f")); else actualParamCpp(mock().actualCall("f"));
        mock().checkExpectations();
    } else if (!strcmp(mode, "andReturn")) {
        if (viaC) andReturnC(mock_c()->expectOneCall("f")); else andReturnCpp(mock().expectOneCall("f"));
        MockActualCall& a = mock().actualCall("f");
        gotType = a.returnValue().getType();
        readCpp(a, false);
        mock().checkExpectations();
    } else if (!strcmp(mode, "getter") || !strcmp(mode, "ordefault")) {
        bool od = !strcmp(mode, "ordefault");
        if (!od || hasRet) andReturnCpp(mock().expectOneCall("f")); else mock().expectOneCall("f");
        if (viaC) readC(mock_c()->actualCall("f"), od); else readCpp(mock().actualCall("f"), od);
        mock().checkExpectations();
    } else if (!strcmp(mode, "returnValue")) {
        andReturnCpp(mock().expectOneCall("f"));
        if (viaC) { MockActualCall_c *a = mock_c()->actualCall("f"); unionOf(a->returnValue()); }
        else { MockActualCall& a = mock().actualCall("f"); gotType = a.returnValue().getType(); readCpp(a, false); }
        mock().checkExpectations();
    } else if (!strcmp(mode, "setData")) {
        if (viaC) setDataC(); else setDataCpp();
        gotType = mock().getData("n").getType();
        unionOf(mock_c()->getData("n"));
    }
    mock().clear();
}

struct Run { size_t failures; uint64_t bits; int tag; uint64_t uni; SimpleString type; SimpleString out; };
static Run runOnce(bool c)
{
    viaC = c;
    TestTestingFixture fixture;
    fixture.setTestFunction(body);
    fixture.runAllTests();
    Run r; r.failures = fixture.getFailureCount(); r.bits = gotBits; r.tag = gotTag; r.uni = gotUnion; r.type = gotType; r.out = fixture.getOutput();
    mock().clear();
    return r;
}

/* ---- the receiver scenario: scope "A" has the call with the return value, the global scope is selected afterwards ---- */
static int rcv_has_c, rcv_has_cpp, rcv_od_c, rcv_od_cpp, rcv_int_c, rcv_int_cpp;   /* -1: the test was failed before the value came back */
static void receiverBody()
{
    mock().clear();
    mock().expectOneCall("g");                               /* a call of the global scope without a return value */
    if (viaC) {
        mock_scope_c("A")->expectOneCall("f")->andReturnIntValue(7);
        MockActualCall_c *a = mock_scope_c("A")->actualCall("f");
        mock_c();                                            /* e.g. another mocked function of the global scope runs in between */
        rcv_has_c = a->hasReturnValue();                     /* MockActualCall_c.hasReturnValue */
        rcv_od_c = a->returnIntValueOrDefault(3);            /* MockActualCall_c.returnIntValueOrDefault */
        mock_c()->actualCall("g");                           /* the other mocked function runs: its call is now the static "current actual call" */
        rcv_int_c = mock_scope_c("A")->returnIntValueOrDefault(3);   /* MockSupport_c.returnIntValueOrDefault of scope A */
    } else {
        mock("A").expectOneCall("f").andReturnValue(7);
        MockActualCall& a = mock("A").actualCall("f");
        mock();
        rcv_has_cpp = a.hasReturnValue();
        rcv_od_cpp = a.returnIntValueOrDefault(3);
        mock().actualCall("g");
        rcv_int_cpp = mock("A").returnIntValueOrDefault(3);
    }
    mock().clear();
}

/* ---- the stale-pointer scenario: the typed getter of MockSupport_c after clear() (no actual call any more) ---- */
static int stale_c, stale_cpp;
static void staleBody()
{
    mock().clear();
    if (viaC) {
        mock_c()->expectOneCall("f")->andReturnIntValue(1);
        mock_c()->actualCall("f");
        mock_c()->clear();                                   /* deletes the actual call the static pointer still names */
        stale_c = mock_c()->intReturnValue();
    } else {
        mock().expectOneCall("f").andReturnValue(1);
        mock().actualCall("f");
        mock().clear();
        stale_cpp = mock().intReturnValue();                 /* no actual call: a test failure (type mismatch), nothing undefined */
    }
    mock().clear();
}

static Kind kindOf(const char *s)
{
    Kind best = K_NONE; size_t bl = 0;
    for (int k = 0; k < K_NONE; k++) {
        const char *n = kindName[k]; size_t l = strlen(n);
        const char *p = strstr(s, n);
        char low[40]; strcpy(low, n); low[0] = (char)(low[0] + 32);
        if (!p) p = strstr(s, low);
        if (p && l > bl) { best = (Kind)k; bl = l; }
    }
    return best;
}

static int compareOne(const char *entry)
{
    Run c = runOnce(true), p = runOnce(false);
    char vtxt[64]; if (kind == K_Double) snprintf(vtxt, sizeof vtxt, "%a", val.d); else snprintf(vtxt, sizeof vtxt, "0x%llx", (unsigned long long)val.bits);
    if (c.failures != p.failures) {
        printf("%s value %s: %d failure(s) through C, %d through C++\n--- C run:\n%s\n--- C++ run:\n%s\n", entry, vtxt, (int)c.failures, (int)p.failures, c.out.asCharString(), p.out.asCharString());
        return 1;
    }
    if (!strcmp(mode, "andReturn") || !strcmp(mode, "getter") || !strcmp(mode, "ordefault")) {
        if (c.bits != p.bits) { printf("%s value %s: returned 0x%llx through C, 0x%llx through C++\n", entry, vtxt, (unsigned long long)c.bits, (unsigned long long)p.bits); return 1; }
        if (!(c.type == p.type)) { printf("%s value %s: type \"%s\" through C, \"%s\" through C++\n", entry, vtxt, c.type.asCharString(), p.type.asCharString()); return 1; }
    }
    if (!strcmp(mode, "returnValue")) {
        if (c.failures == 0 && (c.tag != (int)tagOf[kind] || !(p.type == cppTypeName[kind]) || c.uni != p.bits)) {
            printf("%s kind %s value %s: C tag %d member 0x%llx; C++ type \"%s\" (tag %d expected) value 0x%llx\n", entry, kindName[kind], vtxt, c.tag, (unsigned long long)c.uni, p.type.asCharString(), (int)tagOf[kind], (unsigned long long)p.bits);
            return 1;
        }
    }
    if (!strcmp(mode, "setData")) {
        if (!(c.type == p.type) || c.tag != p.tag || c.uni != p.uni || c.tag != (int)tagOf[kind] || c.uni != expectedBits()) {
            printf("%s value %s: through C type \"%s\" tag %d member 0x%llx; through C++ type \"%s\" tag %d member 0x%llx\n", entry, vtxt, c.type.asCharString(), c.tag, (unsigned long long)c.uni, p.type.asCharString(), p.tag, (unsigned long long)p.uni);
            return 1;
        }
    }
    return 0;
}

int main(int argc, char **argv)
{
    r_init(argc, argv);
    const char *entry = "withIntParameters";
    for (int i = 1; i < argc; i++) if (!strchr(argv[i], '=')) entry = argv[i];
    MemoryLeakWarningPlugin::turnOffNewDeleteOverloads();

    if (!strcmp(entry, "receiver")) {
        rcv_int_c = rcv_int_cpp = -1;
        size_t fc, fp;
        viaC = true; { TestTestingFixture f; f.setTestFunction(receiverBody); f.runAllTests(); fc = f.getFailureCount(); if (fc) printf("C run:\n%s\n", f.getOutput().asCharString()); }
        viaC = false; { TestTestingFixture f; f.setTestFunction(receiverBody); f.runAllTests(); fp = f.getFailureCount(); if (fp) printf("C++ run:\n%s\n", f.getOutput().asCharString()); }
        printf("test failures: C %d, C++ %d\n", (int)fc, (int)fp);
        printf("scope A holds f() -> 7, the global scope is selected in between:\n"
               "  MockActualCall_c.hasReturnValue          C %d   C++ MockActualCall::hasReturnValue %d\n"
               "  MockActualCall_c.returnIntValueOrDefault C %d   C++ MockActualCall::returnIntValueOrDefault(3) %d\n"
               "  MockSupport_c(A).returnIntValueOrDefault C %d   C++ mock(\"A\").returnIntValueOrDefault(3) %d\n",
               rcv_has_c, rcv_has_cpp, rcv_od_c, rcv_od_cpp, rcv_int_c, rcv_int_cpp);
        if (fc != fp || rcv_has_c != rcv_has_cpp || rcv_od_c != rcv_od_cpp || rcv_int_c != rcv_int_cpp)
            REPRODUCED("the C entry points answer for another object than the C++ methods of the same name (one shared forwarder per name, two tables)");
        NOT_REPRODUCED("same answers");
    }

    if (!strcmp(entry, "stale")) {
        size_t fp;
        viaC = false; { TestTestingFixture f; f.setTestFunction(staleBody); f.runAllTests(); fp = f.getFailureCount(); }
        printf("C++: mock().intReturnValue() after clear(): %d test failure(s), no undefined behaviour\n", (int)fp);
        viaC = true; { TestTestingFixture f; f.setTestFunction(staleBody); f.runAllTests(); printf("C: %d test failure(s)\n", (int)f.getFailureCount()); }
        NOT_REPRODUCED("the C run survived the address sanitizer");
    }
    const char *e = entry; bool act = !strncmp(entry, "actual.", 7); if (act) e += 7;
    kind = kindOf(e);
    if (!strcmp(e, "returnValue")) mode = "returnValue";
    else if (act && strstr(e, "ValueOrDefault")) mode = "ordefault";
    else if (act && strstr(e, "ReturnValue")) mode = "getter";
    else if (act && strstr(e, "Parameters")) mode = "actual.param";
    else if (strstr(e, "Parameters")) mode = "expected.param";
    else if (!strncmp(e, "andReturn", 9)) mode = "andReturn";
    else if (!strncmp(e, "set", 3) && strstr(e, "Data")) mode = "setData";
    else { printf("entry point %s is not covered by the native driver\n", entry); return 0; }
    if (kind == K_NONE && strcmp(mode, "returnValue")) { printf("entry point %s: no value kind in the name\n", entry); return 0; }

    static const uint64_t ints[] = { 0, 1, (uint64_t)-1, 1ull << 31, (1ull << 32) + 5, 1ull << 63, (1ull << 63) - 1, 2 };
    static const double dbls[] = { 0.5, -0.0, 1e300, -1.0, 0.1 };
    char ghost[40]; snprintf(ghost, sizeof ghost, "g_ret_%s", kind == K_NONE ? "int" : kindGhost[kind]);
    const char *vname = r_has("value") ? "value" : (r_has(ghost) ? ghost : 0);
    dflt.bits = r_u64("defaultValue", 0x1234567890abcdefull); dflt.d = r_double("defaultValue", 0.25);
    int bad = 0, runs = 0;
    int k0 = (int)kind, k1 = (int)kind;
    if (!strcmp(mode, "returnValue")) { k0 = 0; k1 = K_NONE - 1; }
    for (int k = k0; k <= k1; k++) {
        kind = (Kind)k;
        if (!strcmp(mode, "setData") && (kind == K_LongInt || kind == K_UnsignedLongInt || kind == K_LongLongInt || kind == K_UnsignedLongLongInt)) continue;
        for (int h = 0; h < 2; h++) {
            if (strcmp(mode, "ordefault")) { if (h) break; hasRet = 1; }
            else { if (r_has("g_act_has")) { if (h) break; hasRet = r_u64("g_act_has", 1) != 0; } else hasRet = h; }
            if (vname && k0 == k1) {
                val.bits = r_u64(vname, 0); val.d = r_double(vname, 0.0);
                bad += compareOne(entry); runs++;
            }
            /* a forwarder wired to the wrong type shows only on a value that does not survive the wrong conversion: the
               counterexample of a wrong-method obligation carries an arbitrary value, so the boundary values are run as well */
            for (unsigned i = 0; i < sizeof ints / sizeof ints[0]; i++) {
                val.bits = ints[i]; val.d = dbls[i % (sizeof dbls / sizeof dbls[0])];
                bad += compareOne(entry); runs++;
            }
        }
    }
    if (bad) REPRODUCED("%s: %d of %d scenario(s) differ between the C and the C++ interface", entry, bad, runs);
    NOT_REPRODUCED("%s: %d scenario(s), same verdict, values and type tags through both interfaces", entry, runs);
}
