// native replay: C20 TeamCityTestOutput::printFailure for a failure reported outside the test's own file (or in a helper
// function above the test): the service message must still have exactly its three quoted values and one closing bracket
// when the TEST's file name contains quote/bracket characters.  outside_test_file / in_helper_function select the path.
#define private public
#define protected public
#include "CppUTest/TestHarness.h"
#include "CppUTest/TeamCityTestOutput.h"
#include "CppUTest/TestFailure.h"
#include "replay.h"
static SimpleString captured;
class Capture : public TeamCityTestOutput { public: virtual void printBuffer(const char *s) { captured += s; } };
int main(int argc, char **argv)
{
    r_init(argc, argv);
    bool outside = r_u64("outside_test_file", 1) != 0, helper = r_u64("in_helper_function", 0) != 0;
    const char *testfile = "dir/it's[1].cpp";                      // a legal file name with TeamCity-special characters
    UtestShell test("group", "name", testfile, 100);
    TestFailure f(&test, outside ? "other's].cpp" : testfile, helper ? 50 : 200, "the message");
    Capture out;
    out.printFailure(f);
    const char *s = captured.asCharString();
    printf("message: %s", s);
    // TeamCity reading: a bar escapes the next byte; count the bare quotes and brackets that remain
    int quotes = 0, closing = 0, opening = 0;
    for (size_t i = 0; s[i]; i++) { if (s[i] == '|' && s[i + 1]) { i++; continue; } if (s[i] == '\'') quotes++; if (s[i] == ']') closing++; if (s[i] == '[') opening++; }
    printf("bare quotes %d (want 6), bare [ %d (want 1), bare ] %d (want 1)\n", quotes, opening, closing);
    if (quotes != 6 || opening != 1 || closing != 1) REPRODUCED("a value is printed unescaped: it terminates the attribute / the message early (test file name %s)", testfile);
    NOT_REPRODUCED("all values escaped");
}
