// native replay for C01 proof Utest_run.exceptions: the REAL Utest::run (exception build) on a test whose setup, body and
// teardown each have one of five outcomes (0 completes, 1 C-style failing check = longjmp, 2 C++-style failing check =
// CppUTestFailedException, 3 throws std::exception, 4 throws int), with the real Gcc setjmp platform layer.
// Inputs: o_setup o_body o_teardown (harness names).  REPRODUCED iff the lifecycle or the jump-buffer depth is wrong.
// REPLAY-INCLUDES: src/Platforms/Gcc/UtestPlatform.cpp
#include "src/Platforms/Gcc/UtestPlatform.cpp"      /* jmp_buf_index is a file static there */
#include "CppUTest/TestHarness.h"
#include "CppUTest/TestHarness_c.h"
#include "CppUTest/TestRegistry.h"
#include "CppUTest/TestOutput.h"
#include "CppUTest/TestTestingFixture.h"
#include "replay.h"
#include <stdexcept>

static int o[3]; static int entered[3]; static int after[3];
static void act(int k)
{
    entered[k]++;
    switch (o[k]) {
    case 1: FAIL_TEXT_C("C-style failing check"); break;                 /* longjmp */
    case 2: FAIL("C++-style failing check"); break;                       /* throws CppUTestFailedException */
    case 3: throw std::runtime_error("escaping std exception");
    case 4: throw 42;
    default: break;
    }
    after[k]++;      /* a statement after the failing check / throw */
}
class PhaseTest : public Utest { public: void setup() { act(0); } void testBody() { act(1); } void teardown() { act(2); } };
class PhaseShell : public UtestShell { public: PhaseShell() : UtestShell("G", "phases", "f.cpp", 1) {} Utest* createTest() { return new PhaseTest; } };

int main(int argc, char **argv)
{
    r_init(argc, argv);
    o[0] = (int) r_u64("o_setup", 0) % 5; o[1] = (int) r_u64("o_body", 0) % 5; o[2] = (int) r_u64("o_teardown", 0) % 5;
    int rounds = (int) r_u64("rounds", 12);                    /* more than the 10 jump-buffer slots */
    int bad = 0;
    for (int r = 0; r < rounds; r++) {
        entered[0] = entered[1] = entered[2] = after[0] = after[1] = after[2] = 0;
        int depth0 = jmp_buf_index;
        TestTestingFixture fixture;
        PhaseShell shell;
        fixture.addTest(&shell);
        fixture.runAllTests();
        int depth1 = jmp_buf_index;
        bool body_expected = o[0] == 0;
        int failures_expected = (o[0] != 0) + (body_expected && o[1] != 0) + (o[2] != 0);
        if (entered[0] != 1 || entered[1] != (body_expected ? 1 : 0) || entered[2] != 1) { printf("round %d: phases entered setup=%d body=%d teardown=%d\n", r, entered[0], entered[1], entered[2]); bad++; }
        for (int k = 0; k < 3; k++) if (o[k] != 0 && after[k]) { printf("round %d: statement after the failing check / throw executed in phase %d\n", r, k); bad++; }
        if ((int) fixture.getFailureCount() != failures_expected) { printf("round %d: %d failures recorded, expected %d\n", r, (int) fixture.getFailureCount(), failures_expected); bad++; }
        if (depth1 != depth0) { printf("round %d: jump-buffer depth %d -> %d\n", r, depth0, depth1); bad++; break; }
    }
    if (bad) REPRODUCED("lifecycle / jump-buffer depth violated for outcomes setup=%d body=%d teardown=%d", o[0], o[1], o[2]);
    NOT_REPRODUCED("lifecycle and depth correct for outcomes setup=%d body=%d teardown=%d over %d rounds", o[0], o[1], o[2], rounds);
}
