// native replay: C18 SimpleStringInternalCache::dealloc(memory, size): nu used blocks of the class, release the sel-th (sel >= nu: a foreign pointer)
#define private public
#include "CppUTest/TestHarness.h"
#include "CppUTest/SimpleStringInternalCache.h"
#undef private
#include "CppUTest/TestMemoryAllocator.h"
#include "replay.h"
int main(int argc, char **argv)
{
    r_init(argc, argv);
    size_t size = (size_t) r_u64("size", 10); if (size > 256) size = 256;     // the cached path
    unsigned nu = (unsigned) r_u64("nu", 3) % 4, sel = (unsigned) r_u64("sel", 0);
    SimpleStringInternalCache cache;
    char *used[3]; static char foreign[4] = "abc";
    for (int i = (int) nu - 1; i >= 0; i--) used[i] = cache.alloc(size);      // used[0] is the head of the used list
    bool known = sel < nu;
    char *memory = known ? used[sel] : foreign;
    cache.dealloc(memory, size);
    printf("dealloc(%s pointer) with %u used blocks: warning flag %d\n", known ? "a used" : "a foreign", nu, (int) cache.hasWarnedAboutDeallocations);
    int bad = 0;
    if (cache.hasWarnedAboutDeallocations != !known) bad = 1;
    char *again = cache.alloc(size);                                         // must reuse the released block, or be fresh
    for (unsigned i = 0; i < nu; i++) if (used[i] == again && !(known && i == sel)) bad = 2;
    if (known && again != memory) bad = 3;
    if (known && !bad) {                                                     // every other used buffer must still be known to the cache
        for (unsigned i = 0; i < nu; i++) if (i != sel) cache.dealloc(used[i], size);
        if (cache.hasWarnedAboutDeallocations) bad = 4;
    }
    cache.clearAllIncludingCurrentlyUsedMemory();
    if (bad == 1) REPRODUCED("warning flag wrong");
    if (bad == 2) REPRODUCED("a buffer still in use was handed out again");
    if (bad == 3) REPRODUCED("the released buffer was not put on the free list of its class");
    if (bad == 4) REPRODUCED("another buffer in use fell out of the used list");
    NOT_REPRODUCED("release moved exactly the named buffer");
}
