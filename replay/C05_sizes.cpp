// native replay: C05 size arithmetic of tracked allocations, on the real functions
// REPLAY-INCLUDES: src/CppUTest/MemoryLeakDetector.cpp
#include "src/CppUTest/MemoryLeakDetector.cpp"
#include "replay.h"
int main(int argc, char **argv)
{
    r_init(argc, argv);
    size_t size = (size_t) r_u64("size", 0);
    const char *which = r_str("fn", "aligned");
    const size_t P = sizeof(void*);
    if (!strcmp(which, "aligned")) {
        if (size > (size_t)-1 - P) NOT_REPRODUCED("outside the precondition (size + %zu wraps)", P);
        size_t got = calculateVoidPointerAlignedSize(size);
        size_t want = size + (P - size % P);
        printf("calculateVoidPointerAlignedSize(%zu) = %zu, mathematically %zu\n", size, got, want);
        if (got != want) REPRODUCED("aligned size differs from size + (%zu - size %% %zu)", P, P);
        NOT_REPRODUCED("agrees");
    }
    if (!strcmp(which, "overflows")) {
        bool got = sizeWithAccountingInformationOverflows(size);
        bool want = size > (size_t)-1 - 3 - P - sizeof(MemoryLeakDetectorNode);
        printf("sizeWithAccountingInformationOverflows(%zu) = %d, expected %d\n", size, (int)got, (int)want);
        if (got != want) REPRODUCED("overflow predicate wrong");
        NOT_REPRODUCED("agrees");
    }
    NOT_REPRODUCED("unknown fn");
}
