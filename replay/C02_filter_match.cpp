// native replay for C02 proof TestFilter_match.bounded: the real TestFilter::match on name (a0 a1 a2 | na) and filter
// (b0 b1 b2 | nb), strict / invert flags, against the textbook meaning
#include "CppUTest/TestHarness.h"
#include "CppUTest/TestFilter.h"
#include "replay.h"
int main(int argc, char **argv)
{
    r_init(argc, argv);
    size_t na = (size_t) r_u64("na", 0) % 4, nb = (size_t) r_u64("nb", 0) % 4;
    bool strict = r_u64("strict", 0) != 0, invert = r_u64("invert", 0) != 0;
    char ta[4] = {0, 0, 0, 0}, tb[4] = {0, 0, 0, 0};
    const char *an[3] = {"a0", "a1", "a2"}, *bn[3] = {"b0", "b1", "b2"};
    for (size_t i = 0; i < na; i++) { ta[i] = (char) r_u64(an[i], 'x'); if (!ta[i]) ta[i] = 'x'; }
    for (size_t i = 0; i < nb; i++) { tb[i] = (char) r_u64(bn[i], 'x'); if (!tb[i]) tb[i] = 'x'; }
    bool occ = strstr(ta, tb) != 0, eq = strcmp(ta, tb) == 0;
    bool want = strict ? eq : occ; if (invert) want = !want;
    TestFilter f(tb); if (strict) f.strictMatching(); if (invert) f.invertMatching();
    bool got = f.match(ta);
    printf("filter \"%s\"%s%s on name \"%s\": match = %d, textbook %d\n", tb, strict ? " strict" : "", invert ? " inverted" : "", ta, (int) got, (int) want);
    if (got != want) REPRODUCED("the filter does not select by substring / exact match / negation");
    NOT_REPRODUCED("filter meaning as stated");
}
