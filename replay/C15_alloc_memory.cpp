// native replay: C15 FailableMemoryAllocator::alloc_memory on a pending list of <= 3 entries.
// Inputs are the harness variables of proofs alloc_memory / alloc_memory.real (contracts/C15.spec).
// REPLAY-INCLUDES: src/CppUTest/TestMemoryAllocator.cpp
#define private public
#define protected public
#include "CppUTest/TestHarness.h"
#include "CppUTest/TestMemoryAllocator.h"
#include "CppUTest/PlatformSpecificFunctions.h"
#include "src/CppUTest/TestMemoryAllocator.cpp"
#undef private
#undef protected
#include "replay.h"
static const char *show(char c) { static char b[4][8]; static int k; k = (k + 1) % 4; if (c >= 32 && c < 127) sprintf(b[k], "%c", c); else sprintf(b[k], "\\x%02X", (unsigned) (unsigned char) c); return b[k]; }

int main(int argc, char **argv)
{
    r_init(argc, argv);
    unsigned n = (unsigned) r_u64("n", 0); if (n > 3) n = 3;
    int cur = (int) r_i64("cur", 0);
    char fc = (char) r_i64("fc", 'a'); size_t line = (size_t) r_u64("line", 0);
    static char file[2]; file[0] = fc; file[1] = 0;
    FailableMemoryAllocator a("replay", "malloc", "free");
    LocationToFailAllocNode *nd[3] = {0, 0, 0}; static char fl[3][2];
    bool isloc[3]; int tofail[3], actual[3]; size_t ln[3]; char fci[3];
    for (unsigned i = 0; i < 3; i++) {
        char k[16];
        sprintf(k, "isloc%u", i);  isloc[i] = r_u64(k, 0) != 0;
        sprintf(k, "tofail%u", i); tofail[i] = (int) r_i64(k, 0);
        sprintf(k, "actual%u", i); actual[i] = (int) r_i64(k, 0);
        sprintf(k, "ln%u", i);     ln[i] = (size_t) r_u64(k, 0);
        sprintf(k, "fc%u", i);     fci[i] = (char) r_i64(k, 'a');
        fl[i][0] = fci[i]; fl[i][1] = 0;
    }
    for (int i = (int) n - 1; i >= 0; i--) {
        nd[i] = (LocationToFailAllocNode *) PlatformSpecificMalloc(sizeof(LocationToFailAllocNode));
        nd[i]->allocNumberToFail_ = tofail[i]; nd[i]->actualAllocNumber_ = actual[i];
        nd[i]->file_ = isloc[i] ? fl[i] : NULLPTR; nd[i]->line_ = ln[i];
        nd[i]->next_ = (unsigned) i + 1 < n ? nd[i + 1] : NULLPTR;
    }
    a.head_ = n ? nd[0] : NULLPTR; a.currentAllocNumber_ = cur;
    // the statement: entry i designates this allocation iff ...
    int first = -1;
    for (unsigned i = 0; i < n && first < 0; i++) {
        bool match = isloc[i] && fci[i] == fc && ln[i] == line;
        bool fires = isloc[i] ? (match && actual[i] + 1 == tofail[i]) : (cur + 1 == tofail[i]);
        if (fires) first = (int) i;
    }
    printf("pending list:");
    for (unsigned i = 0; i < n; i++) {
        if (isloc[i]) printf(" [#%d at \"%s\":%lu, seen %d]", tofail[i], show(fci[i]), (unsigned long) ln[i], actual[i]);
        else printf(" [global #%d]", tofail[i]);
    }
    printf("\nallocation: global index %d at \"%s\":%lu\n", cur + 1, show(fc), (unsigned long) line);
    char *ret = a.alloc_memory(16, file, line);
    printf("real alloc_memory returned %s; the statement designates %s\n", ret ? "a block" : "NULL", first < 0 ? "no entry" : "an entry");
    bool bad = (ret == NULLPTR) != (first >= 0);
    if (ret) a.free_memory(ret, 16, file, line);
    a.clearFailedAllocs();
    if (bad) REPRODUCED("allocation %s although %s pending entry designates it", ret ? "succeeded" : "failed", first < 0 ? "no" : "a");
    NOT_REPRODUCED("NULL iff designated holds on this input");
}
