// native replay: C14 SimpleStringBuffer::add from an arbitrary state (fill position, write limit) of the real class.
// REPRODUCED iff the real function writes outside buffer_[4096], leaves the invariant, or truncates earlier text.
// REPLAY-INCLUDES: src/CppUTest/MemoryLeakDetector.cpp
#define private public
#define protected public
#include "src/CppUTest/MemoryLeakDetector.cpp"
#undef private
#undef protected
#include "replay.h"
struct Guarded { SimpleStringBuffer b; unsigned char after[16384]; };
int main(int argc, char **argv)
{
    r_init(argc, argv);
    size_t filled = (size_t) r_u64("positions_filled", 0), limit = (size_t) r_u64("write_limit", 4095);
    if (filled > 4095 || limit > 4095) NOT_REPRODUCED("outside the precondition (invariant)");
    Guarded *g = new Guarded;
    memset(g->after, 0xA5, sizeof(g->after));
    memset(g->b.buffer_, 'x', filled); g->b.buffer_[filled] = 0;
    g->b.positions_filled_ = filled; g->b.write_limit_ = limit;
    static char text[6001]; memset(text, 'y', 6000); text[6000] = 0;
    printf("state: positions_filled_=%zu write_limit_=%zu; add(\"%%s\", <6000 characters>)\n", filled, limit);
    fflush(stdout);
    g->b.add("%s", text);
    size_t past = 0; for (size_t i = 0; i < sizeof(g->after); i++) if (g->after[i] != 0xA5) past++;
    printf("after: positions_filled_=%zu write_limit_=%zu bytes changed behind the buffer object: %zu\n", g->b.positions_filled_, g->b.write_limit_, past);
    if (past) REPRODUCED("add wrote %zu bytes past the SimpleStringBuffer object", past);
    if (g->b.write_limit_ != limit) REPRODUCED("write_limit_ was overwritten (write ran over the end of buffer_ into the fields)");
    if (g->b.positions_filled_ > 4095) REPRODUCED("positions_filled_ left the buffer");
    if (g->b.buffer_[g->b.positions_filled_] != 0) REPRODUCED("text not terminated at the fill position");
    if (g->b.positions_filled_ < filled) REPRODUCED("earlier text truncated: fill position went from %zu back to %zu", filled, g->b.positions_filled_);
    if (g->b.positions_filled_ > limit && g->b.positions_filled_ != filled) REPRODUCED("appended beyond the write limit");
    NOT_REPRODUCED("append stayed inside the buffer and kept the invariant");
}
