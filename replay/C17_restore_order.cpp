// native replay: C17 n <= 5 UT_PTR_SET over a pool of 3 locations, then SetPointerPlugin::postTestAction
#include "CppUTest/TestHarness.h"
#include "CppUTest/TestPlugin.h"
#include "CppUTest/TestOutput.h"
#include "replay.h"
static void *loc[3];
int main(int argc, char **argv)
{
    r_init(argc, argv);
    unsigned n = (unsigned) r_u64("n", 5); if (n > 5) n = 5;
    SetPointerPlugin plugin("SetPointerPlugin");       // resets the table index
    void *pre[3];
    for (int i = 0; i < 3; i++) loc[i] = pre[i] = (void *) (uintptr_t) (0x1000 + i);
    char key[8];
    for (unsigned j = 0; j < n; j++) {
        sprintf(key, "k%u", j); unsigned k = (unsigned) r_u64(key, 0) % 3;
        sprintf(key, "v%u", j); void *v = (void *) (uintptr_t) (0x2000 + j);
        UT_PTR_SET(loc[k], v);
    }
    UtestShell shell("group", "name", "file", 1); StringBufferTestOutput out; TestResult res(out);
    plugin.postTestAction(shell, res);
    for (int i = 0; i < 3; i++) if (loc[i] != pre[i]) REPRODUCED("location %d was not restored to its pre-test value", i);
    NOT_REPRODUCED("every location has its pre-test value");
}
