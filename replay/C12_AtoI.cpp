// native replay: C12/C13 SimpleString::AtoI must not execute undefined behaviour on any argument text.
// The proof uses a loop contract, so its counterexample carries no concrete string; the driver takes
// str=<text> if given and otherwise the smallest witness of the finding, "2147483648" (INT_MAX + 1),
// the text of "-r2147483648". UBSan (-fno-sanitize-recover) aborts with a non-zero exit on signed overflow.
#include "CppUTest/TestHarness.h"
#include "replay.h"
int main(int argc, char **argv)
{
    r_init(argc, argv);
    const char *text = r_str("str", "2147483648");
    if (text[0] != 0 && strspn(text, " \t0123456789+-") != strlen(text)) text = "2147483648";   // the trace names an object, not its bytes
    printf("SimpleString::AtoI(\"%s\")\n", text); fflush(stdout);
    int got = SimpleString::AtoI(text);
    long long want = strtoll(text, 0, 10);
    if (want >= -2147483647LL - 1 && want <= 2147483647LL && (long long)got != want) REPRODUCED("expected %lld, real function returned %d", want, got);
    NOT_REPRODUCED("no undefined behaviour and the value agrees with strtol on this input");
}
