// native replay: C06 release of an address through the real MemoryLeakDetector::deallocMemory.
// Inputs (named scalars of the harness): known, null_address, size, type_checking, same_allocator, same_family, gb0..gb2,
// allocatNodesSeperately. REPRODUCED iff the reports of the real code differ from the statement:
//   not outstanding -> exactly one "Deallocating non-allocated memory"; NULL -> nothing;
//   outstanding -> mismatch iff checking on and families differ; else corruption iff a guard byte changed; else nothing.
#include "CppUTest/TestHarness.h"
#include "CppUTest/MemoryLeakDetector.h"
#include "CppUTest/TestMemoryAllocator.h"
#include "replay.h"
struct Recorder : public MemoryLeakFailure {
    int mismatch, corrupt, nonalloc, other;
    Recorder() : mismatch(0), corrupt(0), nonalloc(0), other(0) {}
    virtual void fail(char *m) {
        if (!strncmp(m, "Allocation/deallocation type mismatch", 37)) mismatch++;
        else if (!strncmp(m, "Memory corruption", 17)) corrupt++;
        else if (!strncmp(m, "Deallocating non-allocated memory", 33)) nonalloc++;
        else other++;
    }
};
struct CountingAllocator : public TestMemoryAllocator {
    int frees; size_t last_size; char *last;
    CountingAllocator(const char *n) : TestMemoryAllocator(n, "alloc", "free"), frees(0), last_size(0), last(0) {}
    virtual void free_memory(char *memory, size_t size, const char *file, size_t line) { if (size || strcmp(file, "MemoryLeakNode")) { frees++; last_size = size; last = memory; } TestMemoryAllocator::free_memory(memory, size, file, line); }
};
int main(int argc, char **argv)
{
    r_init(argc, argv);
    bool known = r_u64("known", 1), null_address = r_u64("null_address", 0), checking = r_u64("type_checking", 1);
    bool same_alloc = r_u64("same_allocator", 0), same_family = r_u64("same_family", 0), sep = r_u64("allocatNodesSeperately", 1);
    size_t size = (size_t) r_u64("size", 4) % 65536;
    char gb[3] = { (char) r_u64("gb0", 'B'), (char) r_u64("gb1", 'A'), (char) r_u64("gb2", 'S') };
    Recorder rec; MemoryLeakDetector det(&rec);
    CountingAllocator A("family one"), F(same_family ? "family one" : "family two");
    TestMemoryAllocator *fa = same_alloc ? (TestMemoryAllocator*) &A : (TestMemoryAllocator*) &F;
    CountingAllocator *fc = same_alloc ? &A : &F;
    if (checking) det.enableAllocationTypeChecking(); else det.disableAllocationTypeChecking();
    det.enable();
    if (!known) {
        char foreign[8];
        det.deallocMemory(fa, null_address ? (void*) 0 : (void*) foreign, "rel.c", 7, sep);
        printf("not outstanding (%s): reports nonalloc=%d mismatch=%d corrupt=%d frees=%d\n", null_address ? "NULL" : "foreign", rec.nonalloc, rec.mismatch, rec.corrupt, fc->frees);
        int want = null_address ? 0 : 1;
        if (rec.nonalloc != want || rec.mismatch || rec.corrupt || rec.other || fc->frees) REPRODUCED("expected %d non-allocated report(s) and nothing else", want);
        NOT_REPRODUCED("agrees with the statement");
    }
    char *m = det.allocMemory(&A, size, "alloc.c", 3, sep);
    if (!m) NOT_REPRODUCED("allocation failed natively");
    for (size_t i = 0; i < size; i++) m[i] = (char) (i * 7 + 1);       /* writing inside the block */
    m[size] = gb[0]; m[size + 1] = gb[1]; m[size + 2] = gb[2];
    bool guard_ok = gb[0] == 'B' && gb[1] == 'A' && gb[2] == 'S';
    det.deallocMemory(fa, m, "rel.c", 7, sep);
    int want_mis = (checking && !same_alloc && !same_family) ? 1 : 0;
    int want_cor = (!want_mis && !guard_ok) ? 1 : 0;
    printf("outstanding size=%zu checking=%d same_allocator=%d same_family=%d guard=%02x %02x %02x: mismatch=%d (want %d) corrupt=%d (want %d) nonalloc=%d frees=%d last_size=%zu\n",
           size, checking, same_alloc, same_family, (unsigned char) gb[0], (unsigned char) gb[1], (unsigned char) gb[2], rec.mismatch, want_mis, rec.corrupt, want_cor, rec.nonalloc, fc->frees, fc->last_size);
    if (rec.mismatch != want_mis) REPRODUCED("mismatch reports: %d, statement says %d", rec.mismatch, want_mis);
    if (rec.corrupt != want_cor) REPRODUCED("corruption reports: %d, statement says %d", rec.corrupt, want_cor);
    if (rec.nonalloc || rec.other) REPRODUCED("unexpected report category");
    if (fc->frees != 1 || fc->last != m || fc->last_size != size) REPRODUCED("block not released exactly once with its user size");
    NOT_REPRODUCED("agrees with the statement");
}
