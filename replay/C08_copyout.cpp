// native replay for proof call.copyOutputParameters.bounded (C08, last clause): one expectation with ignoreOtherParameters() that
// serves some of up to three output parameters; the actual call passes all of them in order.  Kinds (k0..k2): 0 the expectation
// does not mention the parameter, 1 served through an installed copier, 2 served as raw bytes, 3 custom type without a copier.
// Every served parameter must arrive in the caller's variable whatever comes before it; an unmentioned one stays untouched.
// REPLAY-EXT
#include "CppUTest/TestHarness.h"
#include "CppUTest/TestTestingFixture.h"
#include "CppUTestExt/MockSupport.h"
#include "replay.h"
#include <unistd.h>
#undef REPRODUCED
#undef NOT_REPRODUCED
#define REPRODUCED(...) do { printf("REPRODUCED: " __VA_ARGS__); printf("\n"); fflush(stdout); _exit(1); } while (0)
#define NOT_REPRODUCED(...) do { printf("not reproduced: " __VA_ARGS__); printf("\n"); fflush(stdout); _exit(0); } while (0)
static unsigned n, kind[3]; static int src[3], dst[3];
static const char *pname[3] = { "p0", "p1", "p2" };
struct IntCopier : MockNamedValueCopier { void copy(void *out, const void *in) { *(int*)out = *(const int*)in; } };
static IntCopier copier;
static void scenario()
{
    bool any_copier = false; for (unsigned i = 0; i < n; i++) any_copier |= kind[i] == 1;
    if (any_copier) mock().installCopier("Served", copier);
    MockExpectedCall &e = mock().expectOneCall("foo").ignoreOtherParameters();
    for (unsigned i = 0; i < n; i++) {
        if (kind[i] == 1) e.withOutputParameterOfTypeReturning("Served", pname[i], &src[i]);
        else if (kind[i] == 2) e.withOutputParameterReturning(pname[i], &src[i], sizeof(int));
        else if (kind[i] == 3) e.withOutputParameterOfTypeReturning("NoWay", pname[i], &src[i]);
    }
    MockActualCall &a = mock().actualCall("foo");
    for (unsigned i = 0; i < n; i++) {
        if (kind[i] == 1) a.withOutputParameterOfType("Served", pname[i], &dst[i]);
        else if (kind[i] == 3) a.withOutputParameterOfType("NoWay", pname[i], &dst[i]);
        else a.withOutputParameter(pname[i], &dst[i]);
    }
    mock().checkExpectations();
    mock().clear(); mock().removeAllComparatorsAndCopiers();
}
int main(int argc, char **argv)
{
    r_init(argc, argv);
    n = (unsigned) r_u64("n", 2); if (n > 3) n = 3;
    kind[0] = (unsigned) r_u64("k0", 0) & 3; kind[1] = (unsigned) r_u64("k1", 2) & 3; kind[2] = (unsigned) r_u64("k2", 0) & 3;
    bool b[3] = { r_u64("b0", 1) != 0, r_u64("b1", 1) != 0, r_u64("b2", 1) != 0 };
    for (unsigned i = 0; i < n; i++) if (kind[i] == 2 && !b[i]) NOT_REPRODUCED("raw bytes offered to a typed actual parameter: refused before any copy, not a copy-out case");
    unsigned noway = 0;
    for (unsigned i = 0; i < 3; i++) { src[i] = 100 + (int) i; dst[i] = -1; if (i < n && kind[i] == 3) noway++; }
    TestTestingFixture fx; fx.setTestFunction(scenario); fx.runAllTests();
    int failures = (int) fx.getFailureCount();
    printf("output parameters:"); for (unsigned i = 0; i < n; i++) printf(" %s(kind %u)=%d", pname[i], kind[i], dst[i]); printf("; failures %d\n", failures);
    if (noway == 0) {
        if (failures != 0) REPRODUCED("a call whose output parameters are all served or ignored fails");
        for (unsigned i = 0; i < n; i++) {
            if ((kind[i] == 1 || kind[i] == 2) && dst[i] != src[i]) REPRODUCED("output parameter %s is served by the consumed expectation but the caller's variable was not written (holds %d, expectation holds %d)", pname[i], dst[i], src[i]);
            if (kind[i] == 0 && dst[i] != -1) REPRODUCED("output parameter %s is not mentioned by the expectation but the caller's variable was written", pname[i]);
        }
        NOT_REPRODUCED("every served output parameter arrived, ignored ones untouched");
    }
    if (failures == 0) REPRODUCED("a custom-type output parameter without a copier does not fail the call");
    NOT_REPRODUCED("a parameter that cannot be served fails the call");
}
