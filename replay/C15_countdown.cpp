// native replay: C15 countdown(count), 4 allocations, clear, 1 allocation - on the real cpputest_malloc* functions
#include "CppUTest/TestHarness.h"
#include "CppUTest/TestHarness_c.h"
#include "CppUTest/TestMemoryAllocator.h"
#include "replay.h"
int main(int argc, char **argv)
{
    r_init(argc, argv);
    int count = (int) r_i64("count", 0);
    cpputest_malloc_set_out_of_memory_countdown(count);
    int bad = 0;
    for (int j = 1; j <= 4; j++) {
        void *p = cpputest_malloc_location(8, "replay.c", 1);
        bool wantNull = count >= 0 && count <= j;
        printf("countdown(%d): allocation %d -> %s (statement: %s)\n", count, j, p ? "block" : "NULL", wantNull ? "NULL" : "block");
        if ((p == NULLPTR) != wantNull) bad = 1;
        if (p) cpputest_free_location(p, "replay.c", 2);
    }
    cpputest_malloc_set_not_out_of_memory();
    void *p = cpputest_malloc_location(8, "replay.c", 3);
    if (!p) { printf("allocation after clearing failed\n"); bad = 1; } else cpputest_free_location(p, "replay.c", 4);
    if (bad) REPRODUCED("the failing allocations are not exactly the designated ones");
    NOT_REPRODUCED("exactly the designated allocations failed");
}
