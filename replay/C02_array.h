// shared by the C02 array drivers: count tests t0..t3 linked in order, an UtestShellPointerArray built from them
#define private public
#define protected public
#include "CppUTest/TestHarness.h"
#include "CppUTest/TestRegistry.h"
#include "CppUTest/PlatformSpecificFunctions.h"
#include "replay.h"
struct Fixture {
    UtestShell t[4]; size_t count; UtestShell *first;
    Fixture(size_t n) : count(n) { relink(); }
    void relink() { for (size_t i = 0; i < 4; i++) t[i].next_ = (i + 1 < count) ? &t[i + 1] : NULLPTR; first = count ? &t[0] : NULLPTR; }
};
// returns NULL if the array holds each of the first count tests exactly once and the list from slot 0 follows the array; else a message
static const char *check_permutation(UtestShellPointerArray &a, Fixture &f)
{
    if (a.count_ != f.count) return "count_ changed";
    for (size_t k = 0; k < f.count; k++) {
        int occ = 0; for (size_t p = 0; p < f.count; p++) if (a.arrayOfTests_[p] == &f.t[k]) occ++;
        if (occ != 1) return "a test is lost or duplicated in the array";
    }
    for (size_t p = 0; p < f.count; p++) if (a.arrayOfTests_[p]->getNext() != (p + 1 < f.count ? a.arrayOfTests_[p + 1] : NULLPTR)) return "the list does not follow the array order";
    return NULLPTR;
}
