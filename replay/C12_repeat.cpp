// native replay for the C12 proofs setRepeatCount.meaning / setShuffle.meaning: the real CommandLineArguments::parse on the
// vectors that distinguish "value attached", "value is the next argument" and "next argument is not a value".
// (the counterexample of the proof is a symbolic text; the driver sweeps the documented forms instead)
#include "CppUTest/TestHarness.h"
#include "CppUTest/CommandLineArguments.h"
#include "CppUTest/TestFilter.h"
#include "replay.h"

static int bad = 0;
struct V { int ac; const char *av[5]; bool ok; size_t repeat; bool verbose; bool groupFilter; bool shuffle; unsigned seed; bool preseeded; };

static void run(const V &v)
{
    CommandLineArguments args(v.ac, v.av);
    bool ok = args.parse(NULLPTR);
    bool g = args.getGroupFilters() != NULLPTR;
    int b = 0;
    if (ok != v.ok) b = 1;
    if (ok && v.repeat && args.getRepeatCount() != v.repeat) b = 1;
    if (ok && args.isVerbose() != v.verbose) b = 1;
    if (ok && g != v.groupFilter) b = 1;
    if (ok && v.shuffle && (!args.isShuffling() || (v.preseeded && args.getShuffleSeed() != v.seed))) b = 1;
    printf("%s:", b ? "DEVIATES" : "ok");
    for (int i = 1; i < v.ac; i++) printf(" [%s]", v.av[i]);
    printf(" -> accepted=%d repeat=%zu verbose=%d groupFilter=%d shuffling=%d seed=%u\n", (int)ok, args.getRepeatCount(), (int)args.isVerbose(), (int)g, (int)args.isShuffling(), args.getShuffleSeed());
    bad += b;
}

int main(int argc, char **argv)
{
    r_init(argc, argv);
    const V vs[] = {
        {2, {"t", "-r"}, true, 2, false, false, false, 0, false},
        {2, {"t", "-r3"}, true, 3, false, false, false, 0, false},
        {3, {"t", "-r", "4"}, true, 4, false, false, false, 0, false},
        {3, {"t", "-r", "-v"}, true, 2, true, false, false, 0, false},
        {3, {"t", "-r", "TEST(G, N)"}, true, 2, false, true, false, 0, false},
        {3, {"t", "-r", "IGNORE_TEST(G, N)"}, true, 2, false, true, false, 0, false},
        {3, {"t", "-r", "0"}, false, 0, false, false, false, 0, false},
        {3, {"t", "-r", "junk"}, false, 0, false, false, false, 0, false},
        {2, {"t", "-s7"}, true, 0, false, false, true, 7, true},
        {3, {"t", "-s", "9"}, true, 0, false, false, true, 9, true},
        {3, {"t", "-s", "-v"}, true, 0, true, false, true, 0, false},
        {3, {"t", "-s", "TEST(G, N)"}, true, 0, false, true, true, 0, false},
        {2, {"t", "-s0"}, false, 0, false, false, false, 0, false},
    };
    for (size_t k = 0; k < sizeof(vs) / sizeof(vs[0]); k++) run(vs[k]);
    if (bad) REPRODUCED("%d argument vectors are not given their documented meaning", bad);
    NOT_REPRODUCED("all swept vectors have the documented meaning");
}
