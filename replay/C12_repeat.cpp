// native replay for the C12 proofs setRepeatCount.meaning / setShuffle.meaning: the real CommandLineArguments::parse on the
// vectors that distinguish "value attached", "value is the next argument" and "next argument is not a value".
// (the counterexample of the proof is a symbolic text; the driver sweeps the documented forms instead)
#include "CppUTest/TestHarness.h"
#include "CppUTest/CommandLineArguments.h"
#include "CppUTest/TestFilter.h"
#include "replay.h"

static int bad = 0;
struct V { int ac; const char *av[5]; bool ok; size_t repeat; bool verbose; bool groupFilter; bool shuffle; unsigned seed; bool preseeded; };

static void run(const V &v)
{
    CommandLineArguments args(v.ac, v.av);
    bool ok = args.parse(NULLPTR);
    bool g = args.getGroupFilters() != NULLPTR;
    int b = 0;
    if (ok != v.ok) b = 1;
    if (ok && v.repeat && args.getRepeatCount() != v.repeat) b = 1;
    if (ok && args.isVerbose() != v.verbose) b = 1;
    if (ok && g != v.groupFilter) b = 1;
    if (ok && v.shuffle && (!args.isShuffling() || (v.preseeded && args.getShuffleSeed() != v.seed))) b = 1;
    printf("%s:", b ? "DEVIATES" : "ok");
    for (int i = 1; i < v.ac; i++) printf(" [%s]", v.av[i]);
    printf(" -> accepted=%d repeat=%zu verbose=%d groupFilter=%d shuffling=%d seed=%u\n", (int)ok, args.getRepeatCount(), (int)args.isVerbose(), (int)g, (int)args.isShuffling(), args.getShuffleSeed());
    bad += b;
}

int main(int argc, char **argv)
{
    r_init(argc, argv);
    const V vs[] = {
        {2, {"t", "-r"}, true, 2, false, false, false, 0, false},
        {2, {"t", "-r3"}, true, 3, false, false, false, 0, false},
        {3, {"t", "-r", "4"}, true, 4, false, false, false, 0, false},
        {3, {"t", "-r", "-v"}, true, 2, true, false, false, 0, false},
        {3, {"t", "-r", "TEST(G, N)"}, true, 2, false, true, false, 0, false},
        {3, {"t", "-r", "IGNORE_TEST(G, N)"}, true, 2, false, true, false, 0, false},
        {3, {"t", "-r", "0"}, false, 0, false, false, false, 0, false},
        {3, {"t", "-r", "junk"}, false, 0, false, false, false, 0, false},
        {2, {"t", "-s7"}, true, 0, false, false, true, 7, true},
        {3, {"t", "-s", "9"}, true, 0, false, false, true, 9, true},
        {3, {"t", "-s", "-v"}, true, 0, true, false, true, 0, false},
        {3, {"t", "-s", "TEST(G, N)"}, true, 0, false, true, true, 0, false},
        {2, {"t", "-s0"}, false, 0, false, false, false, 0, false},
    };
    const char *mode = "";
    for (int i = 1; i < argc; i++) if (!strchr(argv[i], '=')) mode = argv[i];
    if (!strcmp(mode, "output")) {
        /* the last -o decides: 0 eclipse, 1 junit, 2 teamcity */
        struct O { int ac; const char *av[5]; bool ok; int kind; };
        const O os[] = {
            {2, {"t", "-ojunit"}, true, 1}, {2, {"t", "-oteamcity"}, true, 2}, {2, {"t", "-onormal"}, true, 0}, {2, {"t", "-oeclipse"}, true, 0},
            {3, {"t", "-ojunit", "-onormal"}, true, 0}, {3, {"t", "-oteamcity", "-oeclipse"}, true, 0}, {4, {"t", "-o", "teamcity", "-onormal"}, true, 0},
            {3, {"t", "-onormal", "-ojunit"}, true, 1}, {3, {"t", "-ojunit", "-oteamcity"}, true, 2}, {2, {"t", "-ofoo"}, false, 0},
        };
        for (size_t k = 0; k < sizeof(os) / sizeof(os[0]); k++) {
            CommandLineArguments args(os[k].ac, os[k].av);
            bool ok = args.parse(NULLPTR);
            int kind = args.isJUnitOutput() ? 1 : args.isTeamCityOutput() ? 2 : args.isEclipseOutput() ? 0 : -1;
            int b = (ok != os[k].ok) || (ok && kind != os[k].kind);
            printf("%s:", b ? "DEVIATES" : "ok"); for (int i = 1; i < os[k].ac; i++) printf(" [%s]", os[k].av[i]);
            printf(" -> accepted=%d kind=%d (want %d)\n", (int) ok, kind, os[k].kind);
            bad += b;
        }
        if (bad) REPRODUCED("%d argument vectors do not get the documented output kind", bad);
        NOT_REPRODUCED("output kind as documented (the last -o decides)");
    }
    if (!strcmp(mode, "filters")) {
        struct F { const char *opt; bool name; bool strict; bool invert; };
        const F fs[] = { {"-g", false, false, false}, {"-sg", false, true, false}, {"-xg", false, false, true}, {"-xsg", false, true, true},
                         {"-n", true, false, false}, {"-sn", true, true, false}, {"-xn", true, false, true}, {"-xsn", true, true, true} };
        for (size_t k = 0; k < sizeof(fs) / sizeof(fs[0]); k++) for (int attached = 0; attached < 2; attached++) {
            char one[32]; snprintf(one, sizeof one, "%svalue", fs[k].opt);
            const char *av[4] = {"t", attached ? one : fs[k].opt, "value", 0};
            CommandLineArguments args(attached ? 2 : 3, av);
            bool ok = args.parse(NULLPTR);
            TestFilter want("value"); if (fs[k].strict) want.strictMatching(); if (fs[k].invert) want.invertMatching();
            const TestFilter *mine = fs[k].name ? args.getNameFilters() : args.getGroupFilters();
            const TestFilter *other = fs[k].name ? args.getGroupFilters() : args.getNameFilters();
            int b = !ok || mine == NULLPTR || !(*mine == want) || mine->getNext() != NULLPTR || other != NULLPTR;
            printf("%s: %s %s\n", b ? "DEVIATES" : "ok", fs[k].opt, attached ? "(attached value)" : "(separated value)");
            bad += b;
        }
        if (bad) REPRODUCED("%d filter options do not build the documented filter", bad);
        NOT_REPRODUCED("the eight filter options build the documented filters");
    }
    for (size_t k = 0; k < sizeof(vs) / sizeof(vs[0]); k++) run(vs[k]);
    if (bad) REPRODUCED("%d argument vectors are not given their documented meaning", bad);
    NOT_REPRODUCED("all swept vectors have the documented meaning");
}
