// native replay for C13 proof primitives.bounded: the real StrLen / StrCmp / StrNCmp / MemCmp / StrNCpy / AtoU / AtoI on the texts
// (a0..a3 | na), (b0..b3 | nb) and length n against the C library (ASan build: exact-size heap objects)
#include "CppUTest/TestHarness.h"
#include "CppUTest/SimpleString.h"
#include "replay.h"
#include <stdlib.h>
static int sgn(int x) { return (x > 0) - (x < 0); }
int main(int argc, char **argv)
{
    r_init(argc, argv);
    size_t na = (size_t) r_u64("na", 0) % 7, nb = (size_t) r_u64("nb", 0) % 7, n = (size_t) r_u64("n", 0) % 8;
    char *ta = (char*) malloc(na + 1), *tb = (char*) malloc(nb + 1);
    const char *an[6] = {"a0", "a1", "a2", "a3", "a4", "a5"}, *bn[6] = {"b0", "b1", "b2", "b3", "b4", "b5"};
    for (size_t i = 0; i < na; i++) { ta[i] = (char) r_u64(an[i], 'x'); if (!ta[i]) ta[i] = 'x'; }
    for (size_t i = 0; i < nb; i++) { tb[i] = (char) r_u64(bn[i], 'x'); if (!tb[i]) tb[i] = 'x'; }
    ta[na] = 0; tb[nb] = 0;
    int bad = 0;
    if (SimpleString::StrLen(ta) != strlen(ta)) { printf("StrLen %zu vs strlen %zu\n", SimpleString::StrLen(ta), strlen(ta)); bad++; }
    if (sgn(SimpleString::StrCmp(ta, tb)) != sgn(strcmp(ta, tb))) { printf("StrCmp %d vs strcmp %d\n", SimpleString::StrCmp(ta, tb), strcmp(ta, tb)); bad++; }
    if (sgn(SimpleString::StrNCmp(ta, tb, n)) != sgn(strncmp(ta, tb, n))) { printf("StrNCmp(%zu) %d vs strncmp %d\n", n, SimpleString::StrNCmp(ta, tb, n), strncmp(ta, tb, n)); bad++; }
    size_t m = n; if (m > na + 1) m = na + 1; if (m > nb + 1) m = nb + 1;
    if (sgn(SimpleString::MemCmp(ta, tb, m)) != sgn(memcmp(ta, tb, m))) { printf("MemCmp(%zu) %d vs memcmp %d\n", m, SimpleString::MemCmp(ta, tb, m), memcmp(ta, tb, m)); bad++; }
    if (n > 0) {
        char *d1 = (char*) malloc(n), *d2 = (char*) malloc(n);
        memset(d1, 'Z', n); memset(d2, 'Z', n);
        SimpleString::StrNCpy(d1, ta, n); strncpy(d2, ta, n);
        size_t upto = n < na + 1 ? n : na + 1;
        if (memcmp(d1, d2, upto)) { printf("StrNCpy differs from strncpy in the first %zu bytes\n", upto); bad++; }
    }
    if (SimpleString::AtoU(ta) != (unsigned) strtoul(ta, 0, 10) && ta[0] != '-' && ta[0] != '+') {
        /* strtoul accepts a sign, AtoU does not: compare only unsigned-looking texts after white space */
        const char *q = ta; while (*q == ' ' || (*q > 8 && *q < 14)) q++;
        if (*q != '-' && *q != '+') { printf("AtoU %u vs strtoul %lu\n", SimpleString::AtoU(ta), strtoul(ta, 0, 10)); bad++; }
    }
    if (SimpleString::AtoI(ta) != (int) strtol(ta, 0, 10)) { printf("AtoI %d vs strtol %ld\n", SimpleString::AtoI(ta), strtol(ta, 0, 10)); bad++; }
    printf("texts \"%s\" \"%s\" n=%zu: %d deviations from the C library\n", ta, tb, n, bad);
    if (bad) REPRODUCED("%d primitives deviate from their textbook (C library) meaning", bad);
    NOT_REPRODUCED("all primitives agree with the C library on this input");
}
