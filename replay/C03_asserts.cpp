// native replay: C03 UtestShell::assert* on the real functions: each check fails exactly when the predicate it names is
// false and counts exactly one check.  Runs the integer / bits / pointer / string-NULL / binary-NULL-and-zero-length checks over
// the boundary lattice inside a test fixture; returns 1 iff some operand pair gives the wrong verdict or check count.
#include "CppUTest/TestHarness.h"
#include "CppUTest/TestTestingFixture.h"
#include "replay.h"
static int kind; static long long e, a; static unsigned long m; static const char *se, *sa; static size_t len;
static void body()
{
    UtestShell *t = UtestShell::getCurrent();
    switch (kind) {
    case 0: t->assertLongsEqual((long)e, (long)a, 0, "f", 1); break;
    case 1: t->assertUnsignedLongsEqual((unsigned long)e, (unsigned long)a, 0, "f", 1); break;
    case 2: t->assertLongLongsEqual(e, a, 0, "f", 1); break;
    case 3: t->assertUnsignedLongLongsEqual((unsigned long long)e, (unsigned long long)a, 0, "f", 1); break;
    case 4: t->assertSignedBytesEqual((signed char)e, (signed char)a, 0, "f", 1); break;
    case 5: t->assertBitsEqual((unsigned long)e, (unsigned long)a, m, 8, 0, "f", 1); break;
    case 6: t->assertPointersEqual((const void *)e, (const void *)a, 0, "f", 1); break;
    case 7: t->assertCstrEqual(se, sa, 0, "f", 1); break;
    case 8: t->assertCstrNEqual(se, sa, len, 0, "f", 1); break;
    case 9: t->assertBinaryEqual(se, sa, len, 0, "f", 1); break;
    }
}
static int run(bool pred, const char *what)
{
    TestTestingFixture fixture; fixture.setTestFunction(body); fixture.runAllTests();
    bool failed = fixture.getFailureCount() != 0; size_t checks = fixture.getCheckCount();
    if (failed == pred || checks != 1) {
        printf("%s kind=%d e=%lld a=%lld mask=%lx se=%s sa=%s len=%zu: predicate=%d failed=%d checks=%zu\n", what, kind, e, a, m, se ? se : "(null)", sa ? sa : "(null)", len, (int)pred, (int)failed, checks);
        printf("REPRODUCED: wrong verdict or check count\n"); return 1;
    }
    return 0;
}
int main(int argc, char **argv)
{
    r_init(argc, argv);
    long long p31 = 1LL << 31, p32 = 1LL << 32, min = (long long)(1ULL << 63);
    long long lat[] = { min, min + 1, -p32 - 1, -p32, -p31 - 1, -p31, -129, -128, -1, 0, 1, 127, 128, 255, 256, p31 - 1, p31, p32 - 1, p32, p32 + 1, ~min, -1LL };
    unsigned long masks[] = { 0, 1, 0xff, 0xff00, 0xffffffffUL, 0xffffffff00000000UL, ~0UL, 0x8000000000000000UL };
    const unsigned L = sizeof lat / sizeof lat[0]; long n = 0;
    for (kind = 0; kind <= 6; kind++)
        for (unsigned i = 0; i < L; i++) for (unsigned j = 0; j < L; j++) {
            e = lat[i]; a = lat[j];
            if (kind == 5) { for (unsigned k = 0; k < 8; k++) { m = masks[k]; n++; if (run(((unsigned long)e & m) == ((unsigned long)a & m), "bits")) return 1; } continue; }
            bool pred = kind == 4 ? (signed char)e == (signed char)a : e == a;
            n++; if (run(pred, "equal")) return 1;
        }
    static const char pool[6][8] = { "", "a", "ab", "abc", "abd", "Abc" };   /* 8-byte blocks: len <= 4 stays inside */
    const char *strs[] = { 0, pool[0], pool[1], pool[2], pool[3], pool[4], pool[5] };
    for (kind = 7; kind <= 9; kind++)
        for (unsigned i = 0; i < 7; i++) for (unsigned j = 0; j < 7; j++) for (len = 0; len <= 4; len++) {
            se = strs[i]; sa = strs[j]; bool pred;
            if (kind == 7) pred = (!se && !sa) || (se && sa && !strcmp(se, sa));
            else if (kind == 8) pred = (!se && !sa) || (se && sa && !strncmp(se, sa, len));
            else pred = len == 0 || (!se && !sa) || (se && sa && !memcmp(se, sa, len));
            n++; if (run(pred, "string/block")) return 1;
        }
    printf("%ld checks\n", n);
    NOT_REPRODUCED("every check failed exactly when its predicate was false and counted one check");
}
