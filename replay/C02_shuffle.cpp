// native replay: C02 UtestShellPointerArray::shuffle on count tests, for EVERY sequence of rand() results modulo 12
// (12 = lcm(2,3,4): every choice of j = rand() % (i+1) the code can make for count <= 4): permutation + list follows the array
#include "C02_array.h"
static int seq[3], pos;
static int scripted_rand() { return pos < 3 ? seq[pos++] : 0; }
static unsigned seeded; static int srands;
static void scripted_srand(unsigned s) { seeded = s; srands++; }
int main(int argc, char **argv)
{
    r_init(argc, argv);
    size_t count = (size_t) r_u64("count", 4); if (count > 4) count = 4;
    size_t seed = (size_t) r_u64("seed", 7);
    PlatformSpecificRand = scripted_rand; PlatformSpecificSrand = scripted_srand;
    for (int a0 = 0; a0 < 12; a0++) for (int a1 = 0; a1 < 12; a1++) for (int a2 = 0; a2 < 12; a2++) {
        Fixture f(count);
        UtestShellPointerArray a(f.first);
        seq[0] = a0; seq[1] = a1; seq[2] = a2; pos = 0; srands = 0;
        a.shuffle(seed);
        const char *m = check_permutation(a, f);
        if (m) REPRODUCED("count=%zu rand()=%d,%d,%d: %s", count, a0, a1, a2, m);
        if (count && (srands != 1 || seeded != (unsigned) seed)) REPRODUCED("generator not seeded exactly once with the seed");
    }
    NOT_REPRODUCED("every rand() sequence gives a permutation and a list in array order");
}
