// native replay: C05 block layout of MemoryLeakDetector::allocMemory / reallocMemory on the real detector, with a
// recording allocator whose blocks are lazily committed reservations (so huge requests do not need RAM)
#include "CppUTest/TestHarness.h"
#include "CppUTest/MemoryLeakDetector.h"
#include "CppUTest/TestMemoryAllocator.h"
#include "replay.h"
#include <sys/mman.h>
struct Reporter : MemoryLeakFailure { int n; Reporter() : n(0) {} void fail(char*) { n++; } };
static size_t lastRequest; static char *lastBlock; static int calls;
static const size_t RESERVE = (size_t)1 << 41;
struct RecAllocator : TestMemoryAllocator {
    RecAllocator() : TestMemoryAllocator("rec", "rec") {}
    char* alloc_memory(size_t size, const char*, size_t) {
        calls++; lastRequest = size;
        if (size > ((size_t)1 << 40)) { lastBlock = 0; return 0; }
        void *p = mmap(0, RESERVE, PROT_READ | PROT_WRITE, MAP_PRIVATE | MAP_ANONYMOUS | MAP_NORESERVE, -1, 0);
        lastBlock = (p == MAP_FAILED) ? 0 : (char*)p; return lastBlock;
    }
    void free_memory(char* m, size_t, const char*, size_t) { if (m) munmap(m, RESERVE); }
    char* allocMemoryLeakNode(size_t size) { return (char*)malloc(size); }
    void freeMemoryLeakNode(char* m) { free(m); }
};
int main(int argc, char **argv)
{
    r_init(argc, argv);
    size_t size = (size_t) r_u64("size", 0);
    bool sep = r_u64("allocatNodesSeperately", r_u64("sep", 0)) != 0;
    Reporter rep; MemoryLeakDetector det(&rep); RecAllocator a;
    det.enable();
    char *p = det.allocMemory(&a, size, "f.c", 1, sep);
    printf("allocMemory(size=%zu, separate=%d): result %p, allocator calls %d, requested %zu\n", size, (int)sep, (void*)p, calls, lastRequest);
    if (!p) {
        if (det.totalMemoryLeaks(mem_leak_period_all) != 0) REPRODUCED("NULL result but a block is tracked");
        NOT_REPRODUCED("failed cleanly");
    }
    if (p != lastBlock) REPRODUCED("result is not the allocator's own pointer");
    if (lastRequest < size || lastRequest - size < 3) REPRODUCED("underlying request %zu does not cover %zu user bytes + 3 guard bytes", lastRequest, size);
    if (size <= ((size_t)1 << 40) && !(p[size] == 'B' && p[size + 1] == 'A' && p[size + 2] == 'S')) REPRODUCED("guard bytes not at [size, size+3)");
    if (det.totalMemoryLeaks(mem_leak_period_all) != 1) REPRODUCED("block not tracked exactly once");
    NOT_REPRODUCED("layout sound for this size");
}
