// native replay: C01 TestOutput::printTestsEnded: the printed summary must carry the true counts and read OK exactly when
// the repetition had no failure and ran or ignored at least one test
#define private public
#define protected public
#include "CppUTest/TestHarness.h"
#include "CppUTest/TestOutput.h"
#include "replay.h"
int main(int argc, char **argv)
{
    r_init(argc, argv);
    size_t tests = (size_t) r_u64("tests", 3), run = (size_t) r_u64("run", 2), checks = (size_t) r_u64("checks", 5), ignored = (size_t) r_u64("ignored", 1),
           filtered = (size_t) r_u64("filtered", 0), failures = (size_t) r_u64("failures", 0), ms = (size_t) r_u64("ms", 4);
    bool color = r_u64("color", 0) != 0;
    StringBufferTestOutput out; if (color) out.color();
    TestResult res(out);
    res.testCount_ = tests; res.runCount_ = run; res.checkCount_ = checks; res.ignoredCount_ = ignored; res.filteredOutCount_ = filtered; res.failureCount_ = failures; res.totalExecutionTime_ = ms;
    out.printTestsEnded(res);
    const char *got = out.getOutput().asCharString();
    bool ok = failures == 0 && (run != 0 || ignored != 0);
    char head[96], want[512];
    if (ok) snprintf(head, sizeof head, "OK (");
    else if (failures) snprintf(head, sizeof head, "Errors (%zu failures, ", failures);
    else snprintf(head, sizeof head, "Errors (ran nothing, ");
    snprintf(want, sizeof want, "\n%s%s%zu tests, %zu ran, %zu checks, %zu ignored, %zu filtered out, %zu ms)%s", color ? (ok ? "\033[32;1m" : "\033[31;1m") : "", head,
             tests, run, checks, ignored, filtered, ms, color ? "\033[m" : "");
    printf("printed: %s\n", got);
    if (strncmp(got, want, strlen(want)) != 0) REPRODUCED("summary differs from the true counts / verdict; expected prefix: %s", want);
    if (ok && strstr(got, "Errors")) REPRODUCED("an OK repetition prints Errors");
    if (!ok && strstr(got, "OK (")) REPRODUCED("a failed repetition prints OK");
    NOT_REPRODUCED("summary carries the true counts and the right verdict");
}
