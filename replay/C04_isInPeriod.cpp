// native replay: C04 isInPeriod - the real predicate against the period table of the statement
#include "CppUTest/TestHarness.h"
#include "CppUTest/MemoryLeakDetector.h"
#include "replay.h"
static bool want(int stamp, int q)
{
    if (q == mem_leak_period_all) return true;
    if (q == mem_leak_period_enabled) return stamp == mem_leak_period_enabled || stamp == mem_leak_period_checking;
    if (q == mem_leak_period_checking) return stamp == mem_leak_period_checking;
    return stamp == mem_leak_period_disabled;
}
int main(int argc, char **argv)
{
    r_init(argc, argv);
    int stamp = (int) r_i64("stamp", mem_leak_period_enabled), period = (int) r_i64("period", mem_leak_period_all);
    if (stamp < 1 || stamp > 3 || period < 0 || period > 3) NOT_REPRODUCED("input outside the precondition (stamp %d, query %d)", stamp, period);
    MemoryLeakDetectorList list; MemoryLeakDetectorNode node;
    node.period_ = (MemLeakPeriod) stamp;
    bool got = list.isInPeriod(&node, (MemLeakPeriod) period);
    printf("isInPeriod(stamp=%d, query=%d) = %d\n", stamp, period, (int) got);
    if (got != want(stamp, period)) REPRODUCED("statement says %d, real function returned %d", (int) want(stamp, period), (int) got);
    NOT_REPRODUCED("real function agrees with the statement on this input");
}
