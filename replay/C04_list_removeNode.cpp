// native replay: C04 List_removeNode - removal unlinks exactly the record with that key
#include "C04_list.h"
int main(int argc, char **argv)
{
    r_init(argc, argv);
    r_build();
    size_t j = (size_t) r_u64("j", r_len);            /* index of the record with the key; h_len: unknown key */
    if (j > r_len) j = r_len;
    char *key = j < r_len ? r_nodes[j].memory_ : &r_keys[RMAX + 1];
    MemoryLeakDetectorNode *ret = r_list.removeNode(key);
    MemoryLeakDetectorNode *out[RMAX + 2]; size_t m = r_view(out);
    printf("chain of %lu, remove key of record %lu: returned %s, %lu records left\n", (unsigned long) r_len, (unsigned long) j, ret ? "a record" : "NULL", (unsigned long) m);
    if (j == r_len && ret != 0) REPRODUCED("unknown key, but a record was returned");
    if (j < r_len && ret != &r_nodes[j]) REPRODUCED("the record with the key was not returned");
    if (m != r_len - (j < r_len ? 1 : 0)) REPRODUCED("%lu records remain linked, expected %lu", (unsigned long) m, (unsigned long) (r_len - (j < r_len ? 1 : 0)));
    for (size_t k = 0; k < m; k++) if (out[k] != &r_nodes[k < j ? k : k + 1]) REPRODUCED("position %lu of the chain holds the wrong record", (unsigned long) k);
    NOT_REPRODUCED("real removeNode agrees with the postcondition on this chain");
}
