// native replay: C15 cpputest_strdup_location / cpputest_strndup_location while malloc is (simulated) out of memory
#include "CppUTest/TestHarness.h"
#include "CppUTest/TestHarness_c.h"
#include "replay.h"
int main(int argc, char **argv)
{
    r_init(argc, argv);
    cpputest_malloc_set_out_of_memory();
    printf("malloc is out of memory; calling cpputest_strdup_location(\"x\")\n"); fflush(stdout);
    char *p = cpputest_strdup_location("x", "replay.c", 1);     // the real code copies into the NULL block: the sanitizer stops here
    char *q = cpputest_strndup_location("xyz", 2, "replay.c", 2);
    cpputest_malloc_set_not_out_of_memory();
    if (p || q) REPRODUCED("non-NULL result although the allocation failed");
    NOT_REPRODUCED("NULL returned, like strdup");
}
