// shared by the list-level replay drivers: builds the chain the bounded harness describes from the
// counterexample's scalars (h_len, stamps of h_copy[i]) with the REAL list code
#include <stdio.h>
#include <stdlib.h>
#include <string.h>
#include <stdint.h>
#define private public
#include "CppUTest/TestHarness.h"
#include "CppUTest/MemoryLeakDetector.h"
#undef private
#include "replay.h"
#define RMAX 8
static MemoryLeakDetectorNode r_nodes[RMAX + 1];
static char r_keys[RMAX + 2];
static size_t r_len;
static MemoryLeakDetectorList r_list;
static int r_stamp(size_t i)
{
    char name[64];
    snprintf(name, sizeof name, "in_stamp[%lul]", (unsigned long) i);
    if (!r_has(name)) snprintf(name, sizeof name, "in_stamp[%lu]", (unsigned long) i);
    int v = (int) r_i64(name, mem_leak_period_enabled);
    return (v < 1 || v > 3) ? mem_leak_period_enabled : v;
}
static void r_build(void)
{
    r_len = (size_t) r_u64("in_len", 0);
    if (r_len > RMAX) r_len = RMAX;
    for (size_t i = 0; i <= RMAX; i++) { r_nodes[i].memory_ = &r_keys[i]; r_nodes[i].period_ = (MemLeakPeriod) r_stamp(i); r_nodes[i].next_ = 0; }
    /* addNewNode links at the front: add in reverse to obtain the order 0,1,2,... */
    for (size_t i = r_len; i-- > 0; ) r_list.addNewNode(&r_nodes[i]);
}
static size_t r_view(MemoryLeakDetectorNode **out)
{
    size_t k = 0;
    for (MemoryLeakDetectorNode *p = r_list.head_; p && k <= RMAX; p = p->next_) out[k++] = p;
    return k;
}
static bool r_sees(int stamp, int q)
{
    if (q == mem_leak_period_all) return true;
    if (q == mem_leak_period_enabled) return stamp == mem_leak_period_enabled || stamp == mem_leak_period_checking;
    if (q == mem_leak_period_checking) return stamp == mem_leak_period_checking;
    return stamp == mem_leak_period_disabled;
}
