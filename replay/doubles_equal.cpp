// native replay: C03 doubles_equal postcondition on the real function
#include "CppUTest/TestHarness.h"
#include "replay.h"
#include <math.h>
int main(int argc, char **argv)
{
    r_init(argc, argv);
    double d1 = r_double("d1", 0), d2 = r_double("d2", 0), t = r_double("threshold", 0);
    bool got = doubles_equal(d1, d2, t);
    printf("doubles_equal(%a, %a, %a) = %d\n", d1, d2, t, (int)got);
    if (isnan(d1) || isnan(d2) || isnan(t)) { if (got) REPRODUCED("NaN operand compared equal"); NOT_REPRODUCED("NaN handled"); }
    if (t >= 0.0) {
        bool want = (d1 == d2) || fabs(d1 - d2) <= t;
        if (got != want) REPRODUCED("expected %d (same value or |d1-d2| <= tolerance), real function returned %d", (int)want, (int)got);
    }
    NOT_REPRODUCED("real function agrees with the statement on this input");
}
