// native replay: C13 StringFromOrdinalNumber(number) must carry the English ordinal suffix.
#include "CppUTest/TestHarness.h"
#include "replay.h"
#include <string>
int main(int argc, char **argv)
{
    r_init(argc, argv);
    unsigned number = (unsigned)r_u64("number", 111);
    SimpleString got = StringFromOrdinalNumber(number);
    const char *sfx = "th";
    unsigned t = number % 100, o = number % 10;
    if (!(t >= 11 && t <= 13)) { if (o == 1) sfx = "st"; else if (o == 2) sfx = "nd"; else if (o == 3) sfx = "rd"; }
    std::string want = std::to_string(number) + sfx;
    printf("StringFromOrdinalNumber(%u) = \"%s\"\n", number, got.asCharString());
    if (want != got.asCharString()) REPRODUCED("expected \"%s\", real function returned \"%s\"", want.c_str(), got.asCharString());
    NOT_REPRODUCED("real function agrees with the English ordinal on this input");
}
