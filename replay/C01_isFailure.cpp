// native replay: C01 TestResult::isFailure on (failures, run, ignored): OK exactly when no failure and something ran or was ignored
#define private public
#define protected public
#include "CppUTest/TestHarness.h"
#include "CppUTest/TestOutput.h"
#include "replay.h"
int main(int argc, char **argv)
{
    r_init(argc, argv);
    size_t failures = (size_t) r_u64("failures", 0), run = (size_t) r_u64("run", 1), ignored = (size_t) r_u64("ignored", 0);
    StringBufferTestOutput out; TestResult res(out);
    res.failureCount_ = failures; res.runCount_ = run; res.ignoredCount_ = ignored;
    bool got = res.isFailure(), want = !(failures == 0 && (run != 0 || ignored != 0));
    printf("isFailure(failures=%zu, run=%zu, ignored=%zu) = %d\n", failures, run, ignored, (int) got);
    if (got != want) REPRODUCED("expected %d", (int) want);
    NOT_REPRODUCED("verdict agrees with the statement");
}
