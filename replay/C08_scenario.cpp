// native replay for C08 (engine level): whole mock scenarios through the real MockSupport inside a TestTestingFixture.
// 'stale': expect foo(a=1,b=2) and foo(a=1,b=3); actual foo(a=1,b=3) then foo(b=2).  The second call omits parameter a:
// the scenario must fail once (missing parameter).  REPRODUCED iff it passes.
// REPLAY-EXT
#include "CppUTest/TestHarness.h"
#include "CppUTest/TestTestingFixture.h"
#include "CppUTestExt/MockSupport.h"
#include "replay.h"
#include <unistd.h>
/* leave without running static destructors: a failed scenario leaves by longjmp and leaks by design */
#undef REPRODUCED
#undef NOT_REPRODUCED
#define REPRODUCED(...) do { printf("REPRODUCED: " __VA_ARGS__); printf("\n"); fflush(stdout); _exit(1); } while (0)
#define NOT_REPRODUCED(...) do { printf("not reproduced: " __VA_ARGS__); printf("\n"); fflush(stdout); _exit(0); } while (0)
static void stale()
{
    mock().expectOneCall("foo").withParameter("a", 1).withParameter("b", 2);
    mock().expectOneCall("foo").withParameter("a", 1).withParameter("b", 3);
    mock().actualCall("foo").withParameter("a", 1).withParameter("b", 3);
    mock().actualCall("foo").withParameter("b", 2);
    mock().checkExpectations();
    mock().clear();
}
static void control()
{
    mock().expectOneCall("foo").withParameter("a", 1).withParameter("b", 2);
    mock().expectOneCall("foo").withParameter("a", 1).withParameter("b", 3);
    mock().actualCall("foo").withParameter("a", 1).withParameter("b", 3);
    mock().actualCall("foo").withParameter("b", 2).withParameter("a", 1);
    mock().checkExpectations();
    mock().clear();
}
static int run(void (*f)()) { TestTestingFixture fx; fx.setTestFunction(f); fx.runAllTests(); return (int) fx.getFailureCount(); }
int main(int argc, char **argv)
{
    r_init(argc, argv);
    const char *mode = "stale";
    for (int i = 1; i < argc; i++) if (!strchr(argv[i], '=')) mode = argv[i];
    /* one scenario per process: the two are independent witnesses of the same stale flag */
    int c = strcmp(mode, "control") ? 0 : run(control), s = strcmp(mode, "control") ? run(stale) : 1;
    printf("control scenario (both calls complete, other parameter order): %d failures (want 0)\nscenario with a call omitting parameter a: %d failures (want 1)\n", c, s);
    if (c != 0) REPRODUCED("a scenario whose calls match the expectations fails");
    if (s != 1) REPRODUCED("a call that omits an expected parameter is accepted: a flag recorded during an earlier call still counts");
    NOT_REPRODUCED("verdicts as the statement demands");
}
