// native replay: C02 UtestShellPointerArray::reverse on count tests: slot k must hold the test of slot count-1-k and the list must follow
#include "C02_array.h"
int main(int argc, char **argv)
{
    r_init(argc, argv);
    size_t count = (size_t) r_u64("count", 4); if (count > 4) count = 4;
    Fixture f(count);
    UtestShellPointerArray a(f.first);
    a.reverse();
    printf("reverse of %zu tests:", count); for (size_t p = 0; p < count; p++) printf(" t%d", (int) (a.arrayOfTests_[p] - &f.t[0])); printf("\n");
    const char *m = check_permutation(a, f);
    if (m) REPRODUCED("%s", m);
    for (size_t p = 0; p < count; p++) if (a.arrayOfTests_[p] != &f.t[count - 1 - p]) REPRODUCED("slot %zu does not hold the test of slot %zu", p, count - 1 - p);
    if (a.getFirstTest() != (count ? &f.t[count - 1] : NULLPTR)) REPRODUCED("getFirstTest is not the former last test");
    NOT_REPRODUCED("array reversed, list relinked in array order");
}
