// native replay for the C14 proofs <X>Failure.difference_position: builds the REAL failure objects (ASan/UBSan build) for operand
// pairs whose printable forms coincide or that coincide as texts, and for ordinary differing pairs checks the printed position.
// mode (argv without '='): string | nocase | check | binary
#include "CppUTest/TestHarness.h"
#include "CppUTest/TestFailure.h"
#include "CppUTest/TestOutput.h"
#include "replay.h"

static int bad = 0;
static void expectPos(const SimpleString &msg, size_t pos, const char *what)
{
    SimpleString want = StringFromFormat("difference starts at position %lu", (unsigned long) pos);
    if (!msg.contains(want)) { printf("%s: message does not say \"%s\":\n%s\n", what, want.asCharString(), msg.asCharString()); bad++; }
}
int main(int argc, char **argv)
{
    r_init(argc, argv);
    const char *mode = "string";
    for (int i = 1; i < argc; i++) if (!strchr(argv[i], '=')) mode = argv[i];
    UtestShell test("G", "t", "f.cpp", 1);
    /* exact-size heap copies so that ASan sees any read past an operand */
    #define DUP(lit) ({ size_t n_ = sizeof(lit); char *p_ = (char*) malloc(n_); memcpy(p_, lit, n_); p_; })
    if (!strcmp(mode, "string")) {
        { char *e = DUP("\\n"), *a = DUP("\n"); StringEqualFailure f(&test, "f.cpp", 2, e, a, ""); expectPos(f.getMessage(), 0, "backslash-n vs newline"); }
        { char *e = DUP("abc"), *a = DUP("abd"); StringEqualFailure f(&test, "f.cpp", 2, e, a, ""); expectPos(f.getMessage(), 2, "abc vs abd"); }
        { char *e = DUP("ab"), *a = DUP("abX"); StringEqualFailure f(&test, "f.cpp", 2, e, a, ""); expectPos(f.getMessage(), 2, "ab vs abX"); }
    } else if (!strcmp(mode, "nocase")) {
        { char *e = DUP("\\t"), *a = DUP("\t"); StringEqualNoCaseFailure f(&test, "f.cpp", 2, e, a, ""); expectPos(f.getMessage(), 0, "backslash-t vs tab"); }
        { char *e = DUP("ABc"), *a = DUP("abD"); StringEqualNoCaseFailure f(&test, "f.cpp", 2, e, a, ""); expectPos(f.getMessage(), 2, "ABc vs abD"); }
    } else if (!strcmp(mode, "check")) {
        /* CHECK_EQUAL on values that differ but print alike: both operand texts are equal */
        { SimpleString e(DUP("1")), a(DUP("1")); CheckEqualFailure f(&test, "f.cpp", 2, e, a, ""); printf("%s\n", f.getMessage().asCharString()); }
        { SimpleString e("12"), a("13"); CheckEqualFailure f(&test, "f.cpp", 2, e, a, ""); expectPos(f.getMessage(), 1, "12 vs 13"); }
    } else {
        { unsigned char *e = (unsigned char*) DUP("\x01\x02\x03"), *a = (unsigned char*) DUP("\x01\x02\x04"); BinaryEqualFailure f(&test, "f.cpp", 2, e, a, 3, ""); expectPos(f.getMessage(), 2, "binary 010203 vs 010204"); }
    }
    if (bad) REPRODUCED("%d messages with a wrong position", bad);
    NOT_REPRODUCED("messages built within the operands' bytes, positions correct (mode %s)", mode);
}
