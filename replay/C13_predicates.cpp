// native replay for C13 proof predicates.bounded: real contains / containsNoCase / equalsNoCase / startsWith / endsWith on the
// texts (a0 a1 a2 | na) and (b0 b1 b2 | nb) against the textbook definitions
#include "CppUTest/TestHarness.h"
#include "CppUTest/SimpleString.h"
#include "replay.h"
static char low(char c) { return (c >= 'A' && c <= 'Z') ? (char)(c + ('a' - 'A')) : c; }
int main(int argc, char **argv)
{
    r_init(argc, argv);
    size_t na = (size_t) r_u64("na", 0) % 4, nb = (size_t) r_u64("nb", 0) % 4;
    char ta[4] = {0, 0, 0, 0}, tb[4] = {0, 0, 0, 0};
    const char *an[3] = {"a0", "a1", "a2"}, *bn[3] = {"b0", "b1", "b2"};
    for (size_t i = 0; i < na; i++) { ta[i] = (char) r_u64(an[i], 'x'); if (!ta[i]) ta[i] = 'x'; }
    for (size_t i = 0; i < nb; i++) { tb[i] = (char) r_u64(bn[i], 'x'); if (!tb[i]) tb[i] = 'x'; }
    bool occ = false, occ_nc = false, pre = false, suf = false;
    for (size_t p = 0; p + nb <= na; p++) {
        bool m = true, mnc = true;
        for (size_t j = 0; j < nb; j++) { if (ta[p + j] != tb[j]) m = false; if (low(ta[p + j]) != low(tb[j])) mnc = false; }
        if (m) { occ = true; if (p == 0) pre = true; if (p + nb == na) suf = true; }
        if (mnc) occ_nc = true;
    }
    bool eq_nc = na == nb && occ_nc;
    SimpleString A(ta), B(tb);
    int bad = 0;
    #define CHK(name, got, want) do { bool g_ = (got); printf("%s(\"%s\", \"%s\") = %d, textbook %d\n", name, ta, tb, (int) g_, (int) (want)); if (g_ != (want)) bad++; } while (0)
    CHK("contains", A.contains(B), occ); CHK("containsNoCase", A.containsNoCase(B), occ_nc); CHK("equalsNoCase", A.equalsNoCase(B), eq_nc);
    CHK("startsWith", A.startsWith(B), pre); CHK("endsWith", A.endsWith(B), suf);
    if (bad) REPRODUCED("%d predicates deviate from the textbook definition", bad);
    NOT_REPRODUCED("all five predicates agree with the textbook definition");
}
