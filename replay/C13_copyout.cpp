// native replay for C13 proof copyToBuffer: the real SimpleString::copyToBuffer() of a text of g_len bytes into a caller
// buffer of bufferSize bytes (prefilled with 0x55): the result must be terminated right after min(g_len, bufferSize-1)
// copied bytes, equal the text there, and nothing behind the terminator may change.
#include "CppUTest/TestHarness.h"
#include "CppUTest/SimpleString.h"
#include "replay.h"
int main(int argc, char **argv)
{
    r_init(argc, argv);
    size_t len = (size_t) r_u64("g_len", 0), bufferSize = (size_t) r_u64("bufferSize", 1);
    if (len > 4096) len = 4096; if (bufferSize > 8192) bufferSize = 8192;
    bool isnull = r_u64("isnull", 0) != 0;
    char *text = (char*) malloc(len + 1); for (size_t i = 0; i < len; i++) text[i] = (char)('a' + i % 26); text[len] = 0;
    char *dst = (char*) malloc(bufferSize + 1); memset(dst, 0x55, bufferSize + 1);
    SimpleString s(text);
    s.copyToBuffer(isnull ? 0 : dst, bufferSize);
    size_t m = bufferSize == 0 ? 0 : (bufferSize - 1 < len ? bufferSize - 1 : len);
    printf("copyToBuffer(text of %zu bytes, %s buffer of %zu bytes)\n", len, isnull ? "no" : "a", bufferSize);
    if (isnull || bufferSize == 0) {
        for (size_t i = 0; i <= bufferSize; i++) if (dst[i] != 0x55) REPRODUCED("byte %zu written although there is no room", i);
        NOT_REPRODUCED("nothing written");
    }
    if (dst[m] != 0) REPRODUCED("the copy-out is not terminated at position %zu (byte there: 0x%02X)", m, (unsigned char) dst[m]);
    if (memcmp(dst, text, m)) REPRODUCED("the copied bytes differ from the text");
    for (size_t i = m + 1; i <= bufferSize; i++) if (dst[i] != 0x55) REPRODUCED("byte %zu behind the terminator was written", i);
    NOT_REPRODUCED("terminated copy of min(size, bufferSize-1) bytes");
}
