// native replay: C09 widening getters of MockNamedValue: "returns exactly the stored integer or fails the test".
// The counterexample of the proof names the getter (argument getter=...) and the stored tag t; the driver runs the REAL getter
// inside a test fixture for every stored integer type over the boundary lattice of the property's quantifier and returns 1
// iff some read returns a different number without failing the test.
// REPLAY-EXT
#include "CppUTest/TestHarness.h"
#include "CppUTest/TestTestingFixture.h"
#include "CppUTestExt/MockNamedValue.h"
#include "replay.h"
typedef __int128 big;
static const char *getter; static int stored_type; static big stored; static big got; static bool returned;
static void store(MockNamedValue &v)
{
    switch (stored_type) {
    case 1: v.setValue((int)stored); break;
    case 2: v.setValue((unsigned int)stored); break;
    case 3: v.setValue((long int)stored); break;
    case 4: v.setValue((unsigned long int)stored); break;
    case 5: v.setValue((long long)stored); break;
    case 6: v.setValue((unsigned long long)stored); break;
    }
}
static void body()
{
    MockNamedValue v("p"); store(v);
    returned = false;
    if (!strcmp(getter, "getIntValue")) got = v.getIntValue();
    else if (!strcmp(getter, "getUnsignedIntValue")) got = v.getUnsignedIntValue();
    else if (!strcmp(getter, "getLongIntValue")) got = v.getLongIntValue();
    else if (!strcmp(getter, "getUnsignedLongIntValue")) got = v.getUnsignedLongIntValue();
    else if (!strcmp(getter, "getLongLongIntValue")) got = v.getLongLongIntValue();
    else got = v.getUnsignedLongLongIntValue();
    returned = true;
}
static bool fits(big x, int type)
{
    switch (type) {
    case 1: return x >= -(big)2147483648LL && x <= 2147483647LL;
    case 2: return x >= 0 && x <= 4294967295LL;
    case 3: case 5: return x >= -((big)1 << 63) && x <= (((big)1 << 63) - 1);
    default: return x >= 0 && x <= (((big)1 << 64) - 1);
    }
}
static void print_big(big x) { if (x < 0) { printf("-"); x = -x; } unsigned long long hi = (unsigned long long)(x / 10000000000ULL), lo = (unsigned long long)(x % 10000000000ULL); if (hi) printf("%llu%010llu", hi, lo); else printf("%llu", lo); }
int main(int argc, char **argv)
{
    r_init(argc, argv);
    getter = r_str("getter", "getLongLongIntValue");
    static const char *tn[] = { "", "int", "unsigned int", "long int", "unsigned long int", "long long int", "unsigned long long int" };
    big p31 = (big)1 << 31, p32 = (big)1 << 32, p63 = (big)1 << 63, p64 = (big)1 << 64;
    big lattice[] = { -p63, -p63 + 1, -p31 - 1, -p31, -p31 + 1, -1, 0, 1, p31 - 1, p31, p31 + 1, p32 - 1, p32, p32 + 1, p63 - 1, p63, p63 + 1, p64 - 1 };
    long n = 0;
    for (stored_type = 1; stored_type <= 6; stored_type++)
        for (unsigned k = 0; k < sizeof lattice / sizeof lattice[0]; k++) {
            stored = lattice[k];
            if (!fits(stored, stored_type)) continue;
            TestTestingFixture fixture;
            fixture.setTestFunction(body);
            fixture.runAllTests();
            n++;
            bool failed = fixture.getFailureCount() != 0;
            if (!failed && (!returned || got != stored)) {
                printf("%s() of a value stored as '%s' = ", getter, tn[stored_type]); print_big(stored); printf(" returned "); print_big(got); printf(" and the test did not fail\n");
                REPRODUCED("getter returned a different number without failing the test");
            }
        }
    printf("%ld reads through %s\n", n, getter);
    NOT_REPRODUCED("every read returned the stored integer or failed the test");
}
