// native replay: C04 List_clearAllAccounting - exactly the records the query sees are unlinked, order kept
#include "C04_list.h"
int main(int argc, char **argv)
{
    r_init(argc, argv);
    r_build();
    int period = (int) r_i64("period", mem_leak_period_all);
    if (period < 0 || period > 3) NOT_REPRODUCED("query outside the precondition");
    MemoryLeakDetectorNode *exp[RMAX + 1]; size_t e = 0;
    for (size_t i = 0; i < r_len; i++) if (!r_sees(r_nodes[i].period_, period)) exp[e++] = &r_nodes[i];
    r_list.clearAllAccounting((MemLeakPeriod) period);
    MemoryLeakDetectorNode *out[RMAX + 2]; size_t m = r_view(out);
    printf("chain of %lu, clear query %d: %lu records left, statement says %lu\n", (unsigned long) r_len, period, (unsigned long) m, (unsigned long) e);
    if (m != e) REPRODUCED("%lu records remain linked, expected %lu", (unsigned long) m, (unsigned long) e);
    for (size_t k = 0; k < m; k++) if (out[k] != exp[k]) REPRODUCED("position %lu of the chain holds the wrong record", (unsigned long) k);
    NOT_REPRODUCED("real clearAllAccounting agrees with the postcondition on this chain");
}
