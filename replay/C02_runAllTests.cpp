// native replay: C02 TestRegistry::runAllTests on a real registry of len <= 3 tests.
// sel<k>: the name filter accepts test k; ign<k>: test k is an IGNORE_TEST; pre<k>: it was already told to run ignored;
// diff<k>: test k+1 is in another group than test k; run_ignored: registry-wide -ri.  (separate-process mode is not replayed.)
#define private public
#define protected public
#include "CppUTest/TestHarness.h"
#include "CppUTest/TestRegistry.h"
#include "CppUTest/TestOutput.h"
#include "CppUTest/TestFilter.h"
#include "replay.h"
static int bodies[3];
class CountingTest : public Utest { public: int k; CountingTest(int i) : k(i) {} virtual void testBody() { bodies[k]++; } };
class Plain : public UtestShell { public: int k; Plain(int i, const char *g, const char *n) : UtestShell(g, n, "file.cpp", 10 + (size_t) i), k(i) {} virtual Utest *createTest() { return new CountingTest(k); } };
class Ignored : public IgnoredUtestShell { public: int k; Ignored(int i, const char *g, const char *n) : IgnoredUtestShell(g, n, "file.cpp", 10 + (size_t) i), k(i) {} virtual Utest *createTest() { return new CountingTest(k); } };
static int open_groups, open_tests, gstarts, gends, tstarts, tends, order_errors, started, ended;
class Rec : public StringBufferTestOutput {
public:
    virtual void printTestsStarted() { if (started || gstarts) order_errors++; started++; }
    virtual void printTestsEnded(const TestResult &) { if (open_groups || open_tests || started != 1) order_errors++; ended++; }
    virtual void printCurrentGroupStarted(const UtestShell &) { if (open_groups) order_errors++; open_groups++; gstarts++; }
    virtual void printCurrentGroupEnded(const TestResult &) { if (open_groups != 1 || open_tests) order_errors++; open_groups--; gends++; }
    virtual void printCurrentTestStarted(const UtestShell &) { if (open_groups != 1 || open_tests) order_errors++; open_tests++; tstarts++; }
    virtual void printCurrentTestEnded(const TestResult &) { if (open_tests != 1) order_errors++; open_tests--; tends++; }
};
int main(int argc, char **argv)
{
    r_init(argc, argv);
    unsigned len = (unsigned) r_u64("len", 3); if (len > 3) len = 3;
    bool sel[3], ign[3], pre[3], diff[2]; char key[16];
    for (int k = 0; k < 3; k++) { sprintf(key, "sel%d", k); sel[k] = r_u64(key, 1) != 0; sprintf(key, "ign%d", k); ign[k] = r_u64(key, 0) != 0; sprintf(key, "pre%d", k); pre[k] = r_u64(key, 0) != 0; }
    for (int k = 0; k < 2; k++) { sprintf(key, "diff%d", k); diff[k] = r_u64(key, 0) != 0; }
    bool run_ignored = r_u64("run_ignored", 0) != 0;
    const char *groups[3]; groups[0] = "GroupA"; groups[1] = diff[0] ? "GroupB" : groups[0]; groups[2] = diff[1] ? (groups[1][5] == 'A' ? "GroupB" : "GroupA") : groups[1];
    UtestShell *t[3];
    for (int k = 0; k < 3; k++) {
        const char *name = sel[k] ? "wanted" : "other";
        if (ign[k]) { Ignored *x = new Ignored(k, groups[k], name); if (pre[k]) x->setRunIgnored(); t[k] = x; } else t[k] = new Plain(k, groups[k], name);
    }
    TestRegistry reg; TestFilter filter("wanted"); filter.strictMatching(); reg.setNameFilters(&filter);
    for (int k = (int) len - 1; k >= 0; k--) reg.addTest(t[k]);       // addTest prepends
    if (run_ignored) reg.setRunIgnored();
    Rec out; TestResult res(out);
    reg.runAllTests(res);
    size_t nfilt = 0, nign = 0, nrun = 0; bool bad_bodies = false;
    for (unsigned k = 0; k < len; k++) {
        bool ignored = sel[k] && ign[k] && !(run_ignored || pre[k]);
        bool runs = sel[k] && !ignored;
        nfilt += !sel[k]; nign += ignored; nrun += runs;
        if (bodies[k] != (runs ? 1 : 0)) bad_bodies = true;
    }
    printf("len=%u counts: tests=%zu run=%zu ignored=%zu filtered=%zu failures=%zu; bodies %d %d %d; groups %d/%d tests %d/%d\n", len, res.getTestCount(), res.getRunCount(),
           res.getIgnoredCount(), res.getFilteredOutCount(), res.getFailureCount(), bodies[0], bodies[1], bodies[2], gstarts, gends, tstarts, tends);
    if (res.getTestCount() != len) REPRODUCED("testCount %zu != %u registered tests", res.getTestCount(), len);
    if (res.getRunCount() + res.getIgnoredCount() + res.getFilteredOutCount() != len) REPRODUCED("run + ignored + filteredOut != number of registered tests");
    if (res.getFilteredOutCount() != nfilt || res.getIgnoredCount() != nign || res.getRunCount() != nrun) REPRODUCED("expected run=%zu ignored=%zu filtered=%zu", nrun, nign, nfilt);
    if (bad_bodies) REPRODUCED("a selected test did not execute exactly once, or an unselected/ignored one executed");
    unsigned want_groups = len == 0 ? 0 : 1 + (len > 1 && diff[0]) + (len > 2 && diff[1]);
    if (order_errors || open_groups || gstarts != gends || (unsigned) gstarts != want_groups) REPRODUCED("group notifications unbalanced or not one pair per group (%d starts, %d ends, want %u)", gstarts, gends, want_groups);
    if (tstarts != tends || started != 1 || ended != 1) REPRODUCED("test or run notifications unbalanced");
    NOT_REPRODUCED("accounting identity, exactly-once and group balance hold");
}
