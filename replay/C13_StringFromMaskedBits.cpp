// native replay: C13 StringFromMaskedBits(value, mask, byteCount) must be defined for every byteCount.
// Returns 1 (non-zero exit) iff the real code misbehaves: UBSan report (aborts) or a result that differs from the
// textbook rendering (one char per bit of the low min(byteCount, sizeof(unsigned long)) bytes, MSB first,
// 'x' where the mask bit is clear, ' ' between bytes).
#include "CppUTest/TestHarness.h"
#include "replay.h"
#include <string>
int main(int argc, char **argv)
{
    r_init(argc, argv);
    unsigned long value = (unsigned long)r_u64("value", 0), mask = (unsigned long)r_u64("mask", 0);
    size_t byteCount = (size_t)r_u64("byteCount", 0);
    printf("StringFromMaskedBits(0x%lx, 0x%lx, %zu)\n", value, mask, byteCount); fflush(stdout);
    SimpleString got = StringFromMaskedBits(value, mask, byteCount);     // UBSan aborts here on an undefined shift
    size_t bytes = byteCount > sizeof(unsigned long) ? sizeof(unsigned long) : byteCount, bits = bytes * 8;
    std::string want;
    for (size_t i = 0; i < bits; i++) {
        size_t bit = bits - 1 - i;
        want.push_back(((mask >> bit) & 1) ? (((value >> bit) & 1) ? '1' : '0') : 'x');
        if (i % 8 == 7 && i != bits - 1) want.push_back(' ');
    }
    if (want != got.asCharString()) REPRODUCED("expected \"%s\", real function returned \"%s\"", want.c_str(), got.asCharString());
    NOT_REPRODUCED("real function agrees with the textbook rendering on this input");
}
