// native replay: C08 layer L1, counters and order window of one REAL MockCheckedExpectedCall.
// REPLAY-EXT
// callWasMade: the counterexample names the counted calls (actual), the order window (initial, final_), the observed order
//   number (order) and the out-of-order flag before the call (was_out); the driver puts a real expectation into that state,
//   calls the real callWasMade and checks "one more call counted; out of order exactly when this or an earlier call fell
//   outside the window".
// history: the counterexample names the expected count (expected); the driver feeds a real expectation 5 calls and checks
//   after each "candidate exactly while fewer than n calls were consumed; fulfilled exactly at n".
#define private public
#define protected public
#include "CppUTest/TestHarness.h"
#include "CppUTestExt/MockCheckedExpectedCall.h"
#undef private
#undef protected
#include "replay.h"

int main(int argc, char **argv)
{
    r_init(argc, argv);
    const char *what = argc > 1 ? argv[argc - 1] : "history";
    if (!strcmp(what, "callWasMade")) {
        unsigned actual = (unsigned)r_u64("actual", 0), initial = (unsigned)r_u64("initial", 0), final_ = (unsigned)r_u64("final_", 0), order = (unsigned)r_u64("order", 0);
        bool was_out = r_u64("was_out", 0) != 0;
        MockCheckedExpectedCall e(7);
        e.withCallOrder(initial, final_);
        e.actualCalls_ = actual; e.outOfOrder_ = was_out;
        e.callWasMade(order);
        bool outside = initial != 0 && (order < initial || order > final_);
        printf("callWasMade(%u) with %u calls counted, window [%u,%u], out of order before: %d -> counted %u, out of order %d\n", order, actual, initial, final_, was_out, e.getActualCallsFulfilled(), e.isOutOfOrder());
        if (e.getActualCallsFulfilled() != actual + 1) REPRODUCED("callWasMade did not count exactly one more call");
        if (e.isOutOfOrder() != (was_out || outside)) REPRODUCED("out-of-order flag %d, but the call was %s the window and the flag was %d before", e.isOutOfOrder(), outside ? "outside" : "inside", was_out);
        NOT_REPRODUCED("callWasMade agrees with the order window");
    }
    unsigned expected = (unsigned)r_u64("expected", 1);
    // the counterexample's n plus the small counts around the 5 observed calls
    unsigned tries[] = { expected, 0, 1, 2, 3, 4, 5, 6 };
    for (unsigned t = 0; t < sizeof tries / sizeof tries[0]; t++) {
        unsigned n = tries[t];
        MockCheckedExpectedCall e(n);
        for (unsigned k = 0; k <= 5; k++) {
            if (e.getActualCallsFulfilled() != k) REPRODUCED("expected count %u: after %u calls the expectation has counted %u", n, k, e.getActualCallsFulfilled());
            if (e.canMatchActualCalls() != (k < n)) REPRODUCED("expected count %u: after %u calls canMatchActualCalls() is %d", n, k, e.canMatchActualCalls());
            if (e.isFulfilled() != (k == n)) REPRODUCED("expected count %u: after %u calls isFulfilled() is %d", n, k, e.isFulfilled());
            if (k < 5) e.callWasMade(0);
        }
    }
    NOT_REPRODUCED("multiplicity accounting agrees for expected counts %u and 0..6", expected);
}
