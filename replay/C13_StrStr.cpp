// native replay: C13/C03 StrStr is the textbook strstr (first occurrence, NULL iff none), on the real function
#include "CppUTest/TestHarness.h"
#include "CppUTest/SimpleString.h"
#include "replay.h"
#include <string.h>
int main(int argc, char **argv)
{
    r_init(argc, argv);
    char h[6], n[4];
    const char *hn[] = {"h0","h1","h2","h3","h4"}; const char *nn[] = {"n0","n1","n2"};
    for (int i = 0; i < 5; i++) h[i] = (char) r_i64(hn[i], 0);
    for (int i = 0; i < 3; i++) n[i] = (char) r_i64(nn[i], 0);
    h[5] = 0; n[3] = 0;
    const char *got = SimpleString::StrStr(h, n);
    const char *want = strstr(h, n);
    printf("StrStr(haystack of %zu bytes, needle of %zu bytes): real function offset %ld, strstr offset %ld\n", strlen(h), strlen(n), got ? (long)(got - h) : -1L, want ? (long)(want - h) : -1L);
    if (got != want) REPRODUCED("StrStr differs from the textbook strstr");
    NOT_REPRODUCED("agrees with strstr");
}
