// native replay: C16.  Runs the REAL JUnitTestOutput (file seams redirected to memory) for one group of n_tests tests with
// the pass/fail/ignore pattern of the counterexample (harness variables n_tests, fail0..2, ign0..2, pkg_empty) and names,
// paths, failure message and printed text that contain & < > " ' and line breaks (overridable: group= package= test=
// file= ffile= message= output=), then judges the file with an INDEPENDENT well-formedness checker written here
// (tags balanced and nested, attribute values quoted and unique, no raw & or < in attribute values or text, every & starts
// one of the five entities or a numeric reference, one root element) and checks the faithfulness clauses of the statement
// An earlier warm-up group (warmup=0 switches it off) runs on the same output object first, so that the judged group also depends
// on the reset at a group end.
// (tests=, failures=, one testcase per test in run order with name/file/line, skipped / failure markers, unescaped failure
// message and captured output, file name).  Exit 1 (REPRODUCED) iff the judge rejects.
#include <string>
#include <vector>
#include <map>
#define private public
#define protected public
#include "CppUTest/TestHarness.h"
#include "CppUTest/JUnitTestOutput.h"
#include "CppUTest/TestResult.h"
#include "CppUTest/TestFailure.h"
#include "CppUTest/PlatformSpecificFunctions.h"
#include "replay.h"

// ---------------------------------------------------------------- memory files behind the platform seams
struct MemFile { std::string name, content; bool open; };
// (never destroyed: at exit the library's leak-detecting operator delete is already shut down)
static std::vector<MemFile> &files = *new std::vector<MemFile>;
static int stray_writes;
extern "C" {
static PlatformSpecificFile memFOpen(const char *name, const char *) { MemFile f; f.name = name; f.open = true; files.push_back(f); return (PlatformSpecificFile)(uintptr_t)files.size(); }
static void memFPuts(const char *s, PlatformSpecificFile f) { size_t k = (size_t)(uintptr_t)f; if (k >= 1 && k <= files.size() && files[k - 1].open) files[k - 1].content += s; else stray_writes++; }
static void memFClose(PlatformSpecificFile f) { size_t k = (size_t)(uintptr_t)f; if (k >= 1 && k <= files.size()) files[k - 1].open = false; }
static const char *fixedTimeString() { return "2026-10-03T12:00:00"; }
static unsigned long fixedMillis() { return 1234; }
}

// ---------------------------------------------------------------- the independent judge: a small well-formedness checker
struct Element { std::string name; std::map<std::string, std::string> attr; std::vector<Element> kids; std::string text; };
static std::string &why = *new std::string;
static bool fail_with(const std::string &m, size_t pos) { char b[64]; snprintf(b, sizeof b, " (offset %zu)", pos); why = m + b; return false; }
static bool name_start(char c) { return (c >= 'a' && c <= 'z') || (c >= 'A' && c <= 'Z') || c == '_' || c == ':'; }
static bool name_char(char c) { return name_start(c) || (c >= '0' && c <= '9') || c == '-' || c == '.'; }
static bool xml_char(unsigned char c) { return c == 0x9 || c == 0xA || c == 0xD || c >= 0x20; }
// a reference starting at s[i] ('&'): appends the character, advances i past ';'
static bool reference(const std::string &s, size_t &i, std::string &out)
{
    static const char *names[] = { "&amp;", "&lt;", "&gt;", "&quot;", "&apos;" }; static const char vals[] = { '&', '<', '>', '"', '\'' };
    for (int k = 0; k < 5; k++) if (s.compare(i, strlen(names[k]), names[k]) == 0) { out += vals[k]; i += strlen(names[k]); return true; }
    if (s.compare(i, 2, "&#") == 0) {
        size_t j = i + 2; unsigned long v = 0; bool hex = false, any = false;
        if (j < s.size() && s[j] == 'x') { hex = true; j++; }
        for (; j < s.size() && s[j] != ';'; j++) {
            char c = s[j]; int d;
            if (c >= '0' && c <= '9') d = c - '0'; else if (hex && c >= 'a' && c <= 'f') d = c - 'a' + 10; else if (hex && c >= 'A' && c <= 'F') d = c - 'A' + 10; else return fail_with("malformed numeric character reference", i);
            v = v * (hex ? 16 : 10) + (unsigned long)d; any = true; if (v > 0x10FFFF) return fail_with("character reference out of range", i);
        }
        if (!any || j >= s.size()) return fail_with("unterminated character reference", i);
        if (!(v == 0x9 || v == 0xA || v == 0xD || v >= 0x20)) return fail_with("character reference to a character XML 1.0 forbids", i);
        if (v < 0x80) out += (char)v; else out += '?';
        i = j + 1; return true;
    }
    return fail_with("raw & that starts neither one of the five entities nor a numeric reference", i);
}
static void skip_ws(const std::string &s, size_t &i) { while (i < s.size() && (s[i] == ' ' || s[i] == '\t' || s[i] == '\n' || s[i] == '\r')) i++; }
// element starting at s[i] == '<'
static bool element(const std::string &s, size_t &i, Element &e, int depth)
{
    if (depth > 50) return fail_with("nesting too deep", i);
    size_t start = i; i++;
    if (i >= s.size() || !name_start(s[i])) return fail_with("< not followed by an element name", start);
    while (i < s.size() && name_char(s[i])) e.name += s[i++];
    for (;;) {
        size_t before = i; skip_ws(s, i);
        if (i >= s.size()) return fail_with("unterminated start tag <" + e.name, start);
        if (s[i] == '>') { i++; break; }
        if (s[i] == '/') { if (i + 1 < s.size() && s[i + 1] == '>') { i += 2; return true; } return fail_with("/ inside a tag not followed by >", i); }
        if (before == i) return fail_with("attributes of <" + e.name + "> not separated by white space", i);
        if (!name_start(s[i])) return fail_with("malformed attribute name in <" + e.name + ">", i);
        std::string an; while (i < s.size() && name_char(s[i])) an += s[i++];
        skip_ws(s, i); if (i >= s.size() || s[i] != '=') return fail_with("attribute " + an + " without =", i);
        i++; skip_ws(s, i);
        if (i >= s.size() || (s[i] != '"' && s[i] != '\'')) return fail_with("value of attribute " + an + " is not quoted", i);
        char q = s[i++]; std::string v;
        for (;;) {
            if (i >= s.size()) return fail_with("unterminated value of attribute " + an, start);
            char c = s[i];
            if (c == q) { i++; break; }
            if (c == '<') return fail_with("raw < inside the value of attribute " + an + " of <" + e.name + ">", i);
            if (!xml_char((unsigned char)c)) return fail_with("character XML 1.0 forbids inside attribute " + an, i);
            if (c == '&') { if (!reference(s, i, v)) { why += " in the value of attribute " + an + " of <" + e.name + ">"; return false; } continue; }
            v += (c == '\t' || c == '\n' || c == '\r') ? ' ' : c;         // attribute value normalisation of LITERAL white space
            i++;
        }
        if (e.attr.count(an)) return fail_with("attribute " + an + " appears twice in <" + e.name + ">", start);
        e.attr[an] = v;
    }
    // content
    for (;;) {
        if (i >= s.size()) return fail_with("element <" + e.name + "> is never closed", start);
        char c = s[i];
        if (c == '<') {
            if (i + 1 < s.size() && s[i + 1] == '/') {
                size_t j = i + 2; std::string cn; while (j < s.size() && name_char(s[j])) cn += s[j++];
                skip_ws(s, j); if (j >= s.size() || s[j] != '>') return fail_with("malformed end tag", i);
                if (cn != e.name) return fail_with("end tag </" + cn + "> does not match the open element <" + e.name + ">", i);
                i = j + 1; return true;
            }
            if (i + 1 < s.size() && (s[i + 1] == '!' || s[i + 1] == '?')) return fail_with("comment / CDATA / processing instruction inside the document (the report never writes one: a value leaked markup)", i);
            Element k; if (!element(s, i, k, depth + 1)) return false;
            e.kids.push_back(k); continue;
        }
        if (c == '&') { if (!reference(s, i, e.text)) { why += " in the text of <" + e.name + ">"; return false; } continue; }
        if (!xml_char((unsigned char)c)) return fail_with("character XML 1.0 forbids in the text of <" + e.name + ">", i);
        if (c == '>' && i >= 2 && s[i - 1] == ']' && s[i - 2] == ']') return fail_with("]]> in text", i);
        if (c == '\r') { e.text += '\n'; i++; if (i < s.size() && s[i] == '\n') i++; continue; }                  // line end normalisation
        e.text += c; i++;
    }
}
static bool document(const std::string &s, Element &root)
{
    size_t i = 0;
    if (s.compare(0, 5, "<?xml") == 0) { size_t e = s.find("?>"); if (e == std::string::npos) return fail_with("unterminated XML declaration", 0); i = e + 2; }
    skip_ws(s, i);
    if (i >= s.size() || s[i] != '<') return fail_with("no root element", i);
    if (!element(s, i, root, 0)) return false;
    skip_ws(s, i);
    if (i != s.size()) return fail_with("content after the root element", i);
    return true;
}

static std::string sanitized(const std::string &n) { std::string r = n; for (size_t i = 0; i < r.size(); i++) if (strchr("/\\?%*:|\"<>", r[i])) r[i] = '_'; return r; }
static std::string num(size_t v) { char b[32]; snprintf(b, sizeof b, "%zu", v); return b; }
static std::string show(const std::string &s) { std::string r; for (size_t i = 0; i < s.size(); i++) { char c = s[i]; if (c == '\n') r += "\\n"; else if (c == '\r') r += "\\r"; else if (c == '\t') r += "\\t"; else r += c; } return r; }

int main(int argc, char **argv)
{
    r_init(argc, argv);
    size_t n = (size_t) r_u64("n_tests", 3); if (n > 3) n = 3;
    bool fail[3] = { r_u64("fail0", 0) != 0, r_u64("fail1", 1) != 0, r_u64("fail2", 0) != 0 };
    bool ign[3] = { r_u64("ign0", 0) != 0, r_u64("ign1", 0) != 0, r_u64("ign2", 1) != 0 };
    bool pkg_empty = r_u64("pkg_empty", 0) != 0;
    bool warmup = r_u64("warmup", 1) != 0;
    std::string group = r_str("group", "gr&o|u*p<1>\"q'/x\\y?z%w:v\r\nu"), package = r_str("package", "pk&g<\">'"), test = r_str("test", "te&st<\"'>\n"),
                file = r_str("file", "dir/fi&le<\"'>.cpp"), ffile = r_str("ffile", "ot&her<\"'>.cpp"),
                message = r_str("message", "expected <1 & 2>\r\n  but was \"3\" 'x' &amp; ]]>\n"), output = r_str("output", "printed & <b>\"text\"</b> 'q'\r\nline2\n");

    PlatformSpecificFOpen = memFOpen; PlatformSpecificFPuts = memFPuts; PlatformSpecificFClose = memFClose;
    GetPlatformSpecificTimeString = fixedTimeString; GetPlatformSpecificTimeInMillis = fixedMillis;

    std::string names[3], tfiles[3]; size_t lines[3];
    {
        JUnitTestOutput out;
        if (!pkg_empty) out.setPackageName(package.c_str());
        TestResult result(out);
        result.testsStarted();
        if (warmup) {           // an earlier group on the same output object: the judged group's counts and list depend on the reset at its end
            UtestShell w0("warmup", "w0", "w.cpp", 1), w1("warmup", "w1", "w.cpp", 2);
            result.currentGroupStarted(&w0);
            result.currentTestStarted(&w0); result.countCheck(); result.currentTestEnded(&w0);
            result.currentTestStarted(&w1); { TestFailure f(&w1, "w.cpp", 3, "warm-up failure"); result.addFailure(f); } result.currentTestEnded(&w1);
            result.currentGroupEnded(&w1);
        }
        UtestShell *tests[3] = { 0, 0, 0 }; UtestShell dummy(group.c_str(), "none", "none.cpp", 1);
        for (size_t k = 0; k < n; k++) {
            names[k] = test + num(k); tfiles[k] = file + num(k); lines[k] = 100 + k;
            tests[k] = ign[k] ? new IgnoredUtestShell(group.c_str(), names[k].c_str(), tfiles[k].c_str(), lines[k]) : new UtestShell(group.c_str(), names[k].c_str(), tfiles[k].c_str(), lines[k]);
            if (k == 0) result.currentGroupStarted(tests[k]);
            result.currentTestStarted(tests[k]);
            result.countCheck();
            if (fail[k]) {
                TestFailure first(tests[k], ffile.c_str(), 200 + k, message.c_str()); result.addFailure(first);
                TestFailure second(tests[k], "second.cpp", 999, "a later failure of the same test"); result.addFailure(second);
            }
            result.currentTestEnded(tests[k]);
        }
        result.print(output.c_str());
        result.currentGroupEnded(n ? tests[n - 1] : &dummy);
        result.testsEnded();
        for (size_t k = 0; k < n; k++) delete tests[k];
    }

    if (files.size() != (warmup ? 2u : 1u)) REPRODUCED("%zu files were opened for %d group(s)", files.size(), warmup ? 2 : 1);
    if (warmup) {
        Element w; if (!document(files[0].content, w)) REPRODUCED("warm-up group's file not well-formed: %s", why.c_str());
        if (files[0].name != "cpputest_" + (pkg_empty ? std::string("") : sanitized(package) + "_") + "warmup.xml") REPRODUCED("warm-up group's file name is %s", show(files[0].name).c_str());
        files.erase(files.begin());
    }
    if (files[0].open) REPRODUCED("the group's file was not closed");
    if (stray_writes) REPRODUCED("%d writes went to a file that is not open", stray_writes);
    const std::string &doc = files[0].content;
    printf("file %s:\n%s\n", show(files[0].name).c_str(), doc.c_str());

    // file name
    std::string want_name = sanitized(std::string("cpputest_") + (pkg_empty ? "" : package + "_") + (n ? group : "")) + ".xml";
    if (files[0].name != want_name) REPRODUCED("file name is %s, expected %s", show(files[0].name).c_str(), show(want_name).c_str());

    // well-formedness
    Element root;
    if (!document(doc, root)) REPRODUCED("not well-formed: %s", why.c_str());

    // faithfulness
    if (root.name != "testsuite") REPRODUCED("root element is <%s>", root.name.c_str());
    size_t nfail = 0; for (size_t k = 0; k < n; k++) if (fail[k]) nfail++;
    if (root.attr["tests"] != num(n)) REPRODUCED("tests=\"%s\" for %zu tests", root.attr["tests"].c_str(), n);
    if (root.attr["failures"] != num(nfail)) REPRODUCED("failures=\"%s\" for %zu failed tests", root.attr["failures"].c_str(), nfail);
    if (n && root.attr["name"] != group) REPRODUCED("suite name unescapes to %s, the group is %s", show(root.attr["name"]).c_str(), show(group).c_str());
    std::vector<Element> cases; const Element *sysout = 0;
    for (size_t i = 0; i < root.kids.size(); i++) { if (root.kids[i].name == "testcase") cases.push_back(root.kids[i]); if (root.kids[i].name == "system-out") sysout = &root.kids[i]; }
    if (cases.size() != n) REPRODUCED("%zu testcase elements for %zu tests", cases.size(), n);
    for (size_t k = 0; k < n; k++) {
        Element &c = cases[k];
        if (c.attr["name"] != names[k]) REPRODUCED("testcase %zu: name unescapes to %s, the test is %s (order or escaping)", k, show(c.attr["name"]).c_str(), show(names[k]).c_str());
        if (c.attr["file"] != tfiles[k]) REPRODUCED("testcase %zu: file unescapes to %s, expected %s", k, show(c.attr["file"]).c_str(), show(tfiles[k]).c_str());
        if (c.attr["line"] != num(lines[k])) REPRODUCED("testcase %zu: line=\"%s\", expected %zu", k, c.attr["line"].c_str(), lines[k]);
        std::string cls = (pkg_empty ? "" : package + ".") + group;
        if (c.attr["classname"] != cls) REPRODUCED("testcase %zu: classname unescapes to %s, expected %s", k, show(c.attr["classname"]).c_str(), show(cls).c_str());
        size_t nf = 0, ns = 0; const Element *fe = 0;
        for (size_t i = 0; i < c.kids.size(); i++) { if (c.kids[i].name == "failure") { nf++; fe = &c.kids[i]; } if (c.kids[i].name == "skipped") ns++; }
        if (nf != (fail[k] ? 1u : 0u)) REPRODUCED("testcase %zu: %zu failure elements, test %s", k, nf, fail[k] ? "failed" : "did not fail");
        // (an ignored test does not run, so ignored-and-failed does not arise in a real run; the writer then gives the failure only)
        if (ns != ((ign[k] && !fail[k]) ? 1u : 0u)) REPRODUCED("testcase %zu: %zu skipped markers, test %s", k, ns, ign[k] ? "is ignored" : "is not ignored");
        if (fe) {
            std::string m = fe->attr.count("message") ? fe->attr.find("message")->second : "";
            std::string want = ffile + ":" + num(200 + k) + ": " + message;
            if (m != want) REPRODUCED("testcase %zu: failure message unescapes to \"%s\", the FIRST failure was \"%s\"", k, show(m).c_str(), show(want).c_str());
        }
    }
    if (!sysout) REPRODUCED("no system-out element");
    if (sysout->text != output) REPRODUCED("captured output unescapes to \"%s\", printed was \"%s\"", show(sysout->text).c_str(), show(output).c_str());
    NOT_REPRODUCED("well-formed; counts, order, markers, names, failure message, captured output and file name faithful");
}
