// helpers for native replay drivers: arguments arrive as name=value, where value is either
// b<bit string> (two's complement / IEEE bits as CBMC printed them) or a decimal literal
#ifndef VERIF_REPLAY_H
#define VERIF_REPLAY_H
#include <stdio.h>
#include <stdlib.h>
#include <string.h>
#include <stdint.h>
static int    r_argc; static char **r_argv;
static void   r_init(int argc, char **argv) { r_argc = argc; r_argv = argv; }
static const char *r_raw(const char *name) {
    size_t n = strlen(name);
    for (int i = 1; i < r_argc; i++) if (!strncmp(r_argv[i], name, n) && r_argv[i][n] == '=') return r_argv[i] + n + 1;
    return 0;
}
static int r_has(const char *name) { return r_raw(name) != 0; }
static uint64_t r_u64(const char *name, uint64_t dflt) {
    const char *v = r_raw(name); if (!v) return dflt;
    if (v[0] == 'b') { uint64_t x = 0; for (const char *p = v + 1; *p == '0' || *p == '1'; p++) x = (x << 1) | (uint64_t)(*p - '0'); return x; }
    if (!strcmp(v, "TRUE") || !strcmp(v, "True")) return 1;
    if (!strcmp(v, "FALSE") || !strcmp(v, "False")) return 0;
    if (v[0] == '-') return (uint64_t)strtoll(v, 0, 0);
    return strtoull(v, 0, 0);
}
static int64_t r_i64(const char *name, int64_t dflt) {
    const char *v = r_raw(name); if (!v) return dflt;
    if (v[0] == 'b') { size_t w = strlen(v + 1); uint64_t x = r_u64(name, 0); if (w < 64 && (x >> (w - 1)) & 1) x |= ~(uint64_t)0 << w; return (int64_t)x; }
    return (int64_t)r_u64(name, 0);
}
static double r_double(const char *name, double dflt) {
    const char *v = r_raw(name); if (!v) return dflt;
    if (v[0] == 'b') { uint64_t x = r_u64(name, 0); double d; memcpy(&d, &x, 8); return d; }
    return strtod(v, 0);
}
static const char *r_str(const char *name, const char *dflt) { const char *v = r_raw(name); return v ? v : dflt; }
#define REPRODUCED(...) do { printf("REPRODUCED: " __VA_ARGS__); printf("\n"); return 1; } while (0)
#define NOT_REPRODUCED(...) do { printf("not reproduced: " __VA_ARGS__); printf("\n"); return 0; } while (0)
#endif
