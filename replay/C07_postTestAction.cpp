// native replay: C07 postTestAction - the real plugin, a private detector, a private TestResult
#include <stdio.h>
#include <stdlib.h>
#include <string.h>
#include <stdint.h>
#define private public
#define protected public
#include "CppUTest/TestHarness.h"
#include "CppUTest/TestOutput.h"
#include "CppUTest/TestResult.h"
#include "CppUTest/TestFailure.h"
#include "CppUTest/MemoryLeakDetector.h"
#include "CppUTest/MemoryLeakWarningPlugin.h"
#include "CppUTest/TestMemoryAllocator.h"
#undef private
#undef protected
#include "replay.h"
class QuietFailure : public MemoryLeakFailure { public: void fail(char *) {} };
int main(int argc, char **argv)
{
    r_init(argc, argv);
    bool ignore = r_u64("ignore", 0) != 0, overloaded = r_u64("overloaded", 1) != 0;
    uint64_t expected = r_u64("expected", 0), leaks = r_u64("leaks", 1), f0 = r_u64("failures_at_start", 0), f1 = r_u64("failures_now", 0);
    /* scale the counterexample down to something that can be allocated, keeping every relation the verdict depends on */
    size_t n = leaks > 20 ? 20 : (size_t) leaks;
    size_t exp = expected == leaks ? n : n + 1 + (size_t) (expected % 3);
    bool failed_already = f0 != f1;
    int rc = 0;
    {
        QuietFailure qf; MemoryLeakDetector det(&qf);
        StringBufferTestOutput out; TestResult result(out);
        UtestShell test("group", "name", "file.cpp", 1);
        MemoryLeakWarningPlugin plugin("replay", &det);
        plugin.preTestAction(test, result);
        for (size_t i = 0; i < n; i++) det.allocMemory(defaultMallocAllocator(), 4, "leak.cpp", 10 + i, true);
        if (failed_already) { TestFailure own(&test, "the test's own failure"); result.addFailure(own); }
        if (ignore) plugin.ignoreAllLeaksInTest();
        plugin.expectLeaksInTest(exp);
        if (!overloaded) MemoryLeakWarningPlugin::turnOffNewDeleteOverloads();
        size_t before = result.getFailureCount();
        plugin.postTestAction(test, result);
        size_t added = result.getFailureCount() - before;
        if (!overloaded) MemoryLeakWarningPlugin::turnOnDefaultNotThreadSafeNewDeleteOverloads();
        size_t want = (overloaded && !ignore && exp != n && !failed_already) ? 1 : 0;
        printf("ignore=%d expected=%lu leaks=%lu failed_already=%d overloaded=%d: %lu leak failure(s) added, statement says %lu\n",
               (int) ignore, (unsigned long) exp, (unsigned long) n, (int) failed_already, (int) overloaded, (unsigned long) added, (unsigned long) want);
        if (added != want) { printf("REPRODUCED: %lu failure(s) added, expected %lu\n", (unsigned long) added, (unsigned long) want); rc = 1; }
        else if (det.totalMemoryLeaks(mem_leak_period_checking) != 0) { printf("REPRODUCED: %lu records are still stamped checking after the test\n", (unsigned long) det.totalMemoryLeaks(mem_leak_period_checking)); rc = 1; }
        else if (det.totalMemoryLeaks(mem_leak_period_enabled) != n) { printf("REPRODUCED: the demotion lost or invented records\n"); rc = 1; }
        else if (plugin.ignoreAllWarnings_ || plugin.expectedLeaks_ != 0) { printf("REPRODUCED: per-test declarations not reset (ignore=%d expected=%lu)\n", (int) plugin.ignoreAllWarnings_, (unsigned long) plugin.expectedLeaks_); rc = 1; }
        else if (det.current_period_ != mem_leak_period_enabled) { printf("REPRODUCED: checking not stopped\n"); rc = 1; }
        det.clearAllAccounting(mem_leak_period_all);
    }
    if (rc) return 1;
    NOT_REPRODUCED("real postTestAction agrees with the postcondition on this input");
}
