// native replay: C15/C05 cpputest_calloc_location - a product num*size that does not fit size_t must give NULL
#include "CppUTest/TestHarness.h"
#include "CppUTest/TestHarness_c.h"
#include "replay.h"
int main(int argc, char **argv)
{
    r_init(argc, argv);
    size_t num = (size_t) r_u64("c_num", 0), size = (size_t) r_u64("c_size", 0);
    bool overflow = size != 0 && num > (size_t) -1 / size;
    size_t wrapped = num * size;
    printf("calloc(%lu, %lu): product %s size_t, wrapped request %lu\n", (unsigned long) num, (unsigned long) size, overflow ? "does not fit" : "fits", (unsigned long) wrapped);
    if (!overflow) NOT_REPRODUCED("no overflow on this input");
    if (wrapped > ((size_t) 1 << 30)) NOT_REPRODUCED("the wrapped request is too large for the platform malloc on this machine; try num=%lu size=2", (unsigned long) ((size_t) -1 / 2 + 1));
    void *p = cpputest_calloc_location(num, size, "replay.c", 1);
    if (p) { cpputest_free_location(p, "replay.c", 2); REPRODUCED("non-NULL block of %lu bytes returned for an overflowing product", (unsigned long) wrapped); }
    NOT_REPRODUCED("NULL returned");
}
