// native replay: C15/C05 cpputest_calloc_location - a product num*size that does not fit size_t must give NULL;
// a calloc designated by the out-of-memory countdown must fail like any other allocation
#include "CppUTest/TestHarness.h"
#include "CppUTest/TestHarness_c.h"
#include "replay.h"
int main(int argc, char **argv)
{
    r_init(argc, argv);
    size_t num = (size_t) r_u64("c_num", 0), size = (size_t) r_u64("c_size", 0);
    bool overflow = size != 0 && num > (size_t) -1 / size;
    size_t wrapped = num * size;
    printf("calloc(%lu, %lu): product %s size_t, wrapped request %lu\n", (unsigned long) num, (unsigned long) size, overflow ? "does not fit" : "fits", (unsigned long) wrapped);
    if (!overflow) {
        /* the other clause: calloc takes part in the out-of-memory countdown like every other allocation */
        size_t n = num, sz = size; if (wrapped > ((size_t) 1 << 20)) { n = 4; sz = 8; }
        cpputest_malloc_set_out_of_memory_countdown(1);
        void *q = cpputest_calloc_location(n, sz, "replay.c", 3);
        cpputest_malloc_set_not_out_of_memory();
        printf("countdown(1) then calloc(%lu, %lu): %s\n", (unsigned long) n, (unsigned long) sz, q ? "succeeds" : "NULL");
        if (q) { cpputest_free_location(q, "replay.c", 4); REPRODUCED("the allocation designated by the countdown is a calloc and succeeds: calloc bypasses the countdown"); }
        NOT_REPRODUCED("no overflow on this input, and calloc honours the countdown");
    }
    if (wrapped > ((size_t) 1 << 30)) NOT_REPRODUCED("the wrapped request is too large for the platform malloc on this machine; try num=%lu size=2", (unsigned long) ((size_t) -1 / 2 + 1));
    void *p = cpputest_calloc_location(num, size, "replay.c", 1);
    if (p) { cpputest_free_location(p, "replay.c", 2); REPRODUCED("non-NULL block of %lu bytes returned for an overflowing product", (unsigned long) wrapped); }
    NOT_REPRODUCED("NULL returned");
}
