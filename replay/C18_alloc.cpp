// native replay: C18 SimpleStringInternalCache::alloc(size) with nf free / nu used blocks in the request's class and nn non-cached blocks
#include "CppUTest/TestHarness.h"
#include "CppUTest/SimpleStringInternalCache.h"
#include "CppUTest/TestMemoryAllocator.h"
#include "replay.h"
struct RecAlloc : public TestMemoryAllocator {
    size_t lastSize[64]; char *lastPtr[64]; int n;
    RecAlloc() : TestMemoryAllocator("rec", "malloc", "free"), n(0) {}
    virtual char *alloc_memory(size_t size, const char *f, size_t l) { char *p = TestMemoryAllocator::alloc_memory(size, f, l); if (n < 64) { lastSize[n] = size; lastPtr[n] = p; n++; } return p; }
    size_t sizeOf(char *p) { for (int i = n - 1; i >= 0; i--) if (lastPtr[i] == p) return lastSize[i]; return 0; }
};
int main(int argc, char **argv)
{
    r_init(argc, argv);
    size_t size = (size_t) r_u64("size", 10); if (size > 4096) size = 4096;
    unsigned nf = (unsigned) r_u64("nf", 0) % 3, nu = (unsigned) r_u64("nu", 0) % 3, nn = (unsigned) r_u64("nn", 0) % 3;
    RecAlloc rec; SimpleStringInternalCache cache; cache.setAllocator(&rec);
    char *live[8]; int nlive = 0; char *tofree[4];
    size_t csz = size <= 256 ? size : 16;        // a size of the same class for the pre-existing cached blocks
    for (unsigned i = 0; i < nf; i++) tofree[i] = cache.alloc(csz);
    for (unsigned i = 0; i < nu; i++) live[nlive++] = cache.alloc(csz);
    for (unsigned i = 0; i < nf; i++) cache.dealloc(tofree[i], csz);
    for (unsigned i = 0; i < nn; i++) live[nlive++] = cache.alloc(300 + i);
    char *p = cache.alloc(size);
    printf("alloc(%lu) with %u free / %u used / %u non-cached: block of %lu bytes\n", (unsigned long) size, nf, nu, nn, (unsigned long) rec.sizeOf(p));
    int bad = 0;
    if (!p || rec.sizeOf(p) < size) bad = 1;
    for (int i = 0; i < nlive; i++) if (live[i] == p) bad = 2;
    cache.clearAllIncludingCurrentlyUsedMemory();
    if (bad == 1) REPRODUCED("the buffer handed out is smaller than requested");
    if (bad == 2) REPRODUCED("the buffer handed out is still in use");
    NOT_REPRODUCED("fresh-or-free buffer of sufficient size");
}
