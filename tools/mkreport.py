#!/usr/bin/env python3
"""print markdown tables for DESIGN.md from evidence/*.json and seeded/*/{meta,check_result}.json
usage: mkreport.py            print the tables
       mkreport.py --into     replace the text between <!-- REPORT:BEGIN --> and <!-- REPORT:END --> in DESIGN.md"""
import json, glob, os, sys, io
HERE = os.path.dirname(os.path.dirname(os.path.abspath(__file__)))
_real_stdout = sys.stdout
if '--into' in sys.argv: sys.stdout = io.StringIO()
print('| property | proofs | obligations discharged | functions under contract | bounded stand-ins | quick wall s | back ends | translation-validated functions |')
print('|---|---|---|---|---|---|---|---|')
for f in sorted(glob.glob(os.path.join(HERE, 'evidence', 'C*.json'))):
    e = json.load(open(f)); c = e['coverage']
    fns = sorted(set(x['function'] for x in c.get('functions', [])))
    tv = c.get('translation_validation') or {}
    print('| %s | %d | %d / %d | %d | %d | %.0f | %s | %s |' % (e['property_id'], c.get('proofs', 0), c['discharged'], c['obligations'], len(fns), len(c.get('bounded_functions', [])), e['wall_s'], ', '.join(c.get('backends_used', [])), tv.get('programs', '-')))
print()
print('| seeded change | property | result of `./check` | obligation that fails |')
print('|---|---|---|---|')
for d in sorted(glob.glob(os.path.join(HERE, 'seeded', '*'))):
    m = json.load(open(os.path.join(d, 'meta.json')))
    rp = os.path.join(d, 'check_result.json')
    if os.path.exists(rp):
        r = json.load(open(rp)); st = {1: 'VIOLATION (caught)', 0: 'passes (missed)', 2: 'UNDECIDED (exit 2)'}.get(r['exit'], str(r['exit']))
        ob = ''
        for l in r['lines']:
            if l.strip().startswith('obligation'): ob = l.strip()[11:160]; break
            if l.startswith('UNDECIDED'): ob = l[:160]
    else: st = 'not run'; ob = ''
    print('| %s | %s | %s | %s |' % (os.path.basename(d), m['property'], st, ob.replace('|', '/')))

print()
print('| behaviour-preserving change (benign/) | property | result of `./check` (must be exit 0) |')
print('|---|---|---|')
for d in sorted(glob.glob(os.path.join(HERE, 'benign', '*'))):
    if not os.path.isdir(d): continue
    m = json.load(open(os.path.join(d, 'meta.json')))
    rp = os.path.join(d, 'check_result.json')
    st = 'not run'
    if os.path.exists(rp):
        r = json.load(open(rp)); st = {0: 'quiet (exit 0)', 1: 'FALSE ALARM (exit 1)', 2: 'UNDECIDED (exit 2): ' + ' '.join(r['lines'])[:140].replace('|', '/')}.get(r['exit'], str(r['exit']))
    print('| %s | %s | %s |' % (os.path.basename(d), m['property'], st))

if '--into' in sys.argv:
    txt = sys.stdout.getvalue(); sys.stdout = _real_stdout
    p = os.path.join(HERE, 'DESIGN.md'); d = open(p).read()
    b, e = '<!-- REPORT:BEGIN -->', '<!-- REPORT:END -->'
    if b in d and e in d:
        d = d[:d.index(b) + len(b)] + '\n' + txt + d[d.index(e):]
        open(p, 'w').write(d); print('DESIGN.md tables refreshed')
    else: print('markers not found in DESIGN.md')
