#!/usr/bin/env python3
"""list the C names, prototypes and loop counts the emitter gives the functions of a translation unit"""
import sys, os
sys.path.insert(0, os.path.dirname(os.path.abspath(__file__)))
import verif, cxx2c
s = verif.Session()
u = s.unit(sys.argv[1])
pat = sys.argv[2] if len(sys.argv) > 2 else ''
for cn, f in sorted(u.fn.items()):
    if pat not in cn: continue
    isdef = any(c.get('kind') in ('CompoundStmt', 'CXXTryStmt') for c in f.get('inner', []))
    try:
        proto = u.proto(cn)
        extra = ''
        if isdef:
            try:
                r = u.emit(cn); extra = ' loops=%d %s:%s' % (r['loops'], os.path.basename(r['file'] or '?'), r['line'])
            except cxx2c.Unsupported as ex: extra = ' NOT EXTRACTABLE: %s' % ex
        print('%s%s\n    %s' % (cn, extra if isdef else ' (declaration only)', proto))
    except cxx2c.Unsupported as ex:
        print('%s  PROTOTYPE UNSUPPORTED: %s' % (cn, ex))
if len(sys.argv) > 3 and sys.argv[3] == '--emit':
    for cn in sorted(u.fn):
        if pat in cn and cn in u.emitted: print(u.emitted[cn]['text'])
