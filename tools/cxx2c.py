#!/usr/bin/env python3
"""clang JSON AST -> C emitter (DESIGN.md section 2.1).

A printer, not a patcher: every AST node kind has one emission rule; a node kind or type without a
rule raises Unsupported, which aborts the extraction of that function (exit 2 upstream, never a
verdict).  Rules are counted in Emitter.rules and end up in the evidence files.
"""
import json, os, re, subprocess, hashlib

class Unsupported(Exception):
    pass

KEEP_TYPEDEFS = {'size_t', 'va_list', 'uintptr_t', 'intptr_t', 'pid_t', 'jmp_buf', 'ssize_t',
                 'uint8_t', 'uint16_t', 'uint32_t', 'uint64_t', 'int8_t', 'int16_t', 'int32_t',
                 'int64_t', 'FILE', 'ptrdiff_t', '__builtin_va_list'}

OPNAMES = {'==': 'eq', '!=': 'ne', '+=': 'addassign', '+': 'add', '=': 'assign', '[]': 'index',
           '<<': 'shl', '<': 'lt', '>': 'gt', '()': 'call', '->': 'arrow', '*': 'star', '!': 'not',
           '-': 'sub', '<=': 'le', '>=': 'ge', '++': 'inc', '--': 'dec', '&': 'amp', '|=': 'orassign'}

# ----------------------------------------------------------------------------------------------
class TU:
    """One translation unit: full clang JSON AST with resolved source locations and an id index."""

    def __init__(self, src, incs, defs, cache_dir=None):
        self.src = src
        # the library is read as C++11 (its lowest supported dialect); a proof about code that only exists from C++14 on opts in
        cmd = ['clang++', '-std=c++14' if 'VERIF_STD_CXX14' in defs else '-std=c++11', '-fsyntax-only', '-Xclang', '-ast-dump=json'] + \
              ['-I' + i for i in incs] + ['-D' + d for d in defs] + [src]
        self.cmd = cmd
        key = hashlib.sha256((' '.join(cmd)).encode()).hexdigest()[:16]
        out = None
        cpath = os.path.join(cache_dir, 'ast_' + key + '.json') if cache_dir else None
        if cpath and os.path.exists(cpath):
            out = open(cpath).read()
        else:
            p = subprocess.run(cmd, capture_output=True, text=True)
            if p.returncode != 0:
                raise Unsupported('clang failed on %s: %s' % (src, p.stderr[-2000:]))
            out = p.stdout
            if cpath:
                with open(cpath + '.tmp', 'w') as f:
                    f.write(out)
                os.rename(cpath + '.tmp', cpath)
        self.root = json.loads(out)
        del out
        self.byid = {}
        self.parent = {}       # decl id -> enclosing record name (for members)
        self.records = {}      # name -> defining CXXRecordDecl node
        self.enums = []        # EnumDecl nodes from repo files
        self.typedefs = []     # TypedefDecl nodes from repo files
        self.funcs = {}        # qualified name -> [decl nodes] (all declarations and definitions)
        self.globals = {}      # C name -> VarDecl node (repo files only)
        self.recdecls = set()  # every record name declared in repo files (complete or not)
        self.sysnames = set()  # typedef / tag names from system headers (available through C_PRELUDE's includes)
        self._file = None
        self._line = None
        self._ns = 0
        self._infn = 0
        self._index(self.root, None, [])
        self._files = {}

    # -- location replay: clang prints file/line only when they change, in output order
    def _loc(self, l):
        if not isinstance(l, dict):
            return
        if 'spellingLoc' in l or 'expansionLoc' in l:
            if 'spellingLoc' in l: self._loc(l['spellingLoc'])
            if 'expansionLoc' in l: self._loc(l['expansionLoc'])
            e = l.get('expansionLoc', {})
            l['_file'], l['_line'] = e.get('_file'), e.get('_line')
            return
        if 'file' in l: self._file = l['file']
        if 'line' in l: self._line = l['line']
        if 'offset' in l:
            l['_file'], l['_line'] = self._file, self._line

    def _index(self, n, cls, scope):
        if 'loc' in n: self._loc(n['loc'])
        if 'range' in n:
            self._loc(n['range'].get('begin')); self._loc(n['range'].get('end'))
        k = n.get('kind')
        nid = n.get('id')
        if nid: self.byid[nid] = n
        if k == 'NamespaceDecl':
            self._ns += 1
            for c in n.get('inner', []): self._index(c, cls, scope)
            self._ns -= 1
            return
        if k == 'FriendDecl':
            for c in n.get('inner', []): self._index(c, None, [])
            return
        if k in ('CXXRecordDecl', 'RecordDecl'):
            nm = n.get('name')
            qn = '::'.join(scope + [nm]) if nm else None
            n['_qname'] = qn
            if n.get('completeDefinition') and nm and self.in_repo(n):
                self.records[qn.replace('::', '__')] = n
            n['_cls'] = cls
            if nm and self.in_repo(n): self.recdecls.add(qn.replace('::', '__'))
            elif nm and not scope and not self._ns: self.sysnames.add(nm)
            for c in n.get('inner', []):
                if nm:
                    self._index(c, qn.replace('::', '__'), scope + [nm])
                else:
                    self._index(c, cls, scope)
            return
        if k == 'EnumDecl':
            n['_cls'] = cls
            if self.in_repo(n) and not self._infn: self.enums.append(n)
        if k == 'TypedefDecl' and self.in_repo(n) and cls is None:
            self.typedefs.append(n)
        elif k == 'TypedefDecl' and not scope and n.get('name') and not self._ns:
            self.sysnames.add(n['name'])
        if k in ('FunctionDecl', 'CXXMethodDecl', 'CXXConstructorDecl', 'CXXDestructorDecl', 'CXXConversionDecl'):
            owner = cls
            pid = n.get('parentDeclContextId')
            if pid and pid in self.byid and self.byid[pid].get('kind') in ('CXXRecordDecl',):
                owner = (self.byid[pid].get('_qname') or '').replace('::', '__') or None
            n['_cls'] = owner
            qn = (owner + '::' if owner else '') + n.get('name', '')
            n['_qn'] = qn
            if not n.get('isImplicit') or (k == 'CXXDestructorDecl' and any(c.get('kind') == 'CompoundStmt' for c in n.get('inner', []))):
                self.funcs.setdefault(qn, []).append(n)
        if k == 'VarDecl':
            n['_cls'] = cls
            pid = n.get('parentDeclContextId')
            if pid and pid in self.byid and self.byid[pid].get('kind') == 'CXXRecordDecl':
                n['_cls'] = (self.byid[pid].get('_qname') or '').replace('::', '__')
        if k == 'FieldDecl':
            n['_cls'] = cls
        if k == 'EnumConstantDecl':
            n['_cls'] = cls
        isfn = k in ('FunctionDecl', 'CXXMethodDecl', 'CXXConstructorDecl', 'CXXDestructorDecl', 'CXXConversionDecl')
        if isfn: self._infn += 1
        for c in n.get('inner', []):
            self._index(c, cls, scope)
        if isfn: self._infn -= 1

    def in_repo(self, n):
        l = n.get('loc') or n.get('range', {}).get('begin') or {}
        f = l.get('_file') or ''
        return '/usr/' not in f and f != '' and 'lib/clang' not in f and 'lib/llvm' not in f

    def file_of(self, n):
        l = n.get('loc') or {}
        return l.get('_file')

    def line_of(self, n):
        l = n.get('range', {}).get('begin') or n.get('loc') or {}
        return l.get('_file'), l.get('_line')

    def definition(self, qname, sig=None):
        """the defining decl node of a (possibly overloaded) function"""
        cands = [f for f in self.funcs.get(qname, []) if any(c.get('kind') in ('CompoundStmt', 'CXXTryStmt') for c in f.get('inner', []))]
        if sig is not None:
            cands = [f for f in cands if sig_key(f) == sig or str(len(params_of(f))) == sig]
        return cands

    def source_range_hash(self, n):
        b = n['range']['begin']; e = n['range']['end']
        f = b.get('_file')
        try:
            data = open(f, 'rb').read()
            bo = b.get('offset', 0); eo = e.get('offset', 0) + e.get('tokLen', 1)
            return f, bo, eo, hashlib.sha256(data[bo:eo]).hexdigest()
        except Exception:
            return f, None, None, None


def is_static_method(tu, f):
    if f.get('kind') == 'FunctionDecl' and not f.get('_cls'): return True
    if f.get('kind') in ('CXXConstructorDecl', 'CXXDestructorDecl', 'CXXConversionDecl'): return False
    if f.get('storageClass') == 'static': return True
    sk = sig_key(f)
    for g in tu.funcs.get(f.get('_qn'), []):
        if g.get('storageClass') == 'static' and sig_key(g) == sk: return True
    return False

def params_of(f):
    return [c for c in f.get('inner', []) if c.get('kind') == 'ParmVarDecl']

def split_params(fnty):
    """'void (int, char (*)(int)) const' -> ['int', 'char (*)(int)']"""
    depth = 0; start = None; groups = []
    for j, ch in enumerate(fnty):
        if ch == '(':
            if depth == 0: start = j
            depth += 1
        elif ch == ')':
            depth -= 1
            if depth == 0: groups.append((start, j))
    if not groups: return []
    g = 0
    if fnty[groups[0][0] + 1:groups[0][1]].strip().startswith('*') and len(groups) > 1: g = 1
    s, e = groups[g]
    inside = fnty[s + 1:e]
    ps, depth, cur = [], 0, ''
    for ch in inside:
        if ch == ',' and depth == 0:
            ps.append(cur.strip()); cur = ''
        else:
            depth += ch in '(<['; depth -= ch in ')>]'; cur += ch
    if cur.strip(): ps.append(cur.strip())
    return [p for p in ps if p != 'void']

def mangle_types(ps):
    if not ps: return '__0'
    return '__' + '_'.join(re.sub(r'[^A-Za-z0-9]+', '', p.replace('const ', 'c').replace('unsigned ', 'u').replace('*', 'P').replace('&', 'R')) for p in ps)

def sig_key(f):
    return mangle_types(split_params(f['type']['qualType']))

# ----------------------------------------------------------------------------------------------
class Namer:
    """C names for C++ functions (R1).  Overloads get a suffix: arity if unique, else type mangle."""

    def __init__(self, tu):
        self.tu = tu

    def overload_set(self, qn):
        seen = {}
        for f in self.tu.funcs.get(qn, []):
            seen.setdefault(sig_key(f), f)
        return seen

    def cname(self, f):
        qn = f['_qn']; cls = f.get('_cls'); nm = f.get('name', '')
        k = f['kind']
        if k == 'CXXConstructorDecl': base = cls + '_ctor'
        elif k == 'CXXDestructorDecl': base = cls + '_dtor'
        elif k == 'CXXConversionDecl': base = cls + '_conv_' + re.sub(r'[^A-Za-z0-9]+', '_', nm.replace('operator', '').strip())
        elif nm.startswith('operator') and not re.match(r'operator[A-Za-z_]', nm):
            op = nm[len('operator'):].strip()
            base = (cls + '_' if cls else '') + 'op_' + OPNAMES.get(op, re.sub(r'[^A-Za-z0-9]+', '_', op))
        elif nm.startswith('operator '):
            base = (cls + '_' if cls else '') + 'op_' + re.sub(r'[^A-Za-z0-9]+', '_', nm[9:])
        else:
            base = (cls + '_' if cls else '') + nm
        ov = self.overload_set(qn)
        if len(ov) <= 1: return base
        ar = {}
        for sk, g in ov.items(): ar.setdefault(len(params_of(g)), []).append(sk)
        n = len(params_of(f))
        if len(ar[n]) == 1: return '%s__%d' % (base, n)
        sk = sig_key(f)
        # R1b: `T *` and `T (*)()` mangle alike (voidP); only when both overloads exist the function-pointer one is named ...FP
        if '(*)' in f['type']['qualType']:
            fp = lambda g: mangle_types([p.replace('(*)', ' FP ') for p in split_params(g['type']['qualType'])])
            if any(sig_key(g) == sk and fp(g) != fp(f) for g in self.tu.funcs.get(qn, [])): return base + fp(f)
        return base + sk

# ----------------------------------------------------------------------------------------------
class Emitter:
    def __init__(self, tu, namer, prelude):
        self.tu = tu; self.namer = namer; self.prelude = prelude
        self.loops = 0; self.rules = {}; self.calls = set(); self.globals_used = set()
        self.cur = None; self.tmpn = 0; self.inserts = {}
        self.ret_slot = None; self.ret_ref = False
        # R17 (opt-in per proof, @define VERIF_SCOPE_DTORS): destructor calls for named block-scope locals of class type
        self.scope_dtors = '-DVERIF_SCOPE_DTORS' in getattr(tu, 'cmd', [])
        self.scopes = []
        # R13b (opt-in per proof, @define VERIF_EXCEPTIONS): try/catch and throw at statement granularity
        self.exc = '-DVERIF_EXCEPTIONS' in getattr(tu, 'cmd', [])
        self.try_stack = []; self.caught_stack = []; self.tryn = 0; self.ret_default = 'return;'

    def fire(self, r): self.rules[r] = self.rules.get(r, 0) + 1
    def kids(self, n): return [c for c in n.get('inner', []) if c.get('kind') != 'FullComment']

    # ---- types
    def ctype(self, t):
        return self.prelude.ctype(t)
    def decl(self, t, name):
        return self.prelude.decl(t, name)
    def class_of(self, t):
        return self.prelude.class_of(t)

    # ---- statements
    def line(self, n, ind):
        f, l = self.tu.line_of(n)
        if f and l: return '#line %d "%s"\n' % (l, f)
        return ''

    def s(self, n, ind):
        k = n['kind']
        f = getattr(self, 's_' + k, None)
        if f: return f(n, ind)
        return self.line(n, ind) + ind + self.e(n) + ';\n' + self.exc_exit(n, ind)

    CALLISH = ('CallExpr', 'CXXMemberCallExpr', 'CXXOperatorCallExpr', 'CXXConstructExpr', 'CXXTemporaryObjectExpr', 'CXXNewExpr', 'CXXDeleteExpr', 'CXXThrowExpr')
    def has_call(self, n):
        if n.get('kind') in self.CALLISH: return True
        return any(self.has_call(c) for c in n.get('inner', []) if isinstance(c, dict))

    def propagate(self, ind):
        """leave the function with the exception in flight: destructors of live named locals (R17), then return"""
        live = [sc for sc in self.live_scopes() if sc['locals']] if self.scope_dtors else []
        return '{ ' + self.dtor_calls(live, '').replace('\n', ' ') + self.ret_default + ' }'

    def exc_exit(self, n, ind):
        """R13b: after a statement that contains a call: an exception in flight goes to the innermost handler or leaves the function"""
        if not self.exc or n is None or not self.has_call(n): return ''
        self.fire('R13b exception check after a statement with calls')
        if self.try_stack: return ind + 'if (verif_exc) goto %s;\n' % self.try_stack[-1]
        return ind + 'if (verif_exc) %s\n' % self.propagate(ind)

    def s_CompoundStmt(self, n, ind):
        return self.block(n, ind)

    def body(self, n, ind, loop=None, boundary=None):
        mark = (ind + '  /*@BODYBEGIN %d@*/\n' % loop) if loop is not None else ''
        return self.block(n, ind, mark, 'loop' if loop is not None else boundary)

    def block(self, n, ind, mark='', boundary=None):
        self.scopes.append({'locals': [], 'boundary': boundary})
        stmts = self.kids(n) if n['kind'] == 'CompoundStmt' else [n]
        out = ''.join(self.s(c, ind + '  ') for c in stmts)
        sc = self.scopes.pop()
        if sc['locals'] and not (stmts and stmts[-1]['kind'] in ('ReturnStmt', 'BreakStmt', 'ContinueStmt')):
            out += self.dtor_calls([sc], ind + '  ')
        return ind + '{\n' + mark + out + ind + '}\n'

    def has_dtor(self, cq):
        r = self.tu.records.get(cq)
        return bool(r and r.get('definitionData', {}).get('dtor', {}).get('nonTrivial'))

    def dtor_name(self, cq):
        for f in self.tu.funcs.get(cq + '::~' + cq.split('__')[-1], []):
            if f['kind'] == 'CXXDestructorDecl':
                nm = self.namer.cname(f); self.calls.add(nm); return nm
        raise Unsupported('no destructor declaration for ' + cq)

    def dtor_calls(self, scopes, ind):
        out = ''
        for sc in scopes:
            for nm, cq in reversed(sc['locals']):
                self.fire('R17 scope exit -> destructor call of block-scope local')
                out += ind + '%s(&%s);\n' % (self.dtor_name(cq), nm)
        return out

    def live_scopes(self, upto=None):
        """innermost first; up to and including the nearest scope with one of the boundaries in upto (all when None)"""
        out = []
        for sc in reversed(self.scopes):
            out.append(sc)
            if upto and sc['boundary'] in upto: break
        return out

    def s_DeclStmt(self, n, ind):
        out = self._s_DeclStmt(n, ind)
        chk = self.exc_exit(n, ind)
        if chk and not out.endswith(chk): out += chk
        return out

    def _s_DeclStmt(self, n, ind):
        out = self.line(n, ind)
        for v in self.kids(n):
            if v['kind'] == 'EnumDecl':
                out += ind + 'enum %s { %s };\n' % (v.get('name', ''), ', '.join(self.prelude._enum_items(v))); continue
            if v['kind'] != 'VarDecl': raise Unsupported('decl ' + v['kind'])
            t = v['type']; q = t['qualType']
            init = self.kids(v)
            st = 'static ' if v.get('storageClass') == 'static' else ''
            cq = self.class_of(t)
            if cq and not q.rstrip().endswith(('*', '&')):
                self.fire('R9 class local -> ctor call')
                nm = v['name']
                if not init:
                    if self.scope_dtors and self.has_dtor(cq): raise Unsupported('uninitialised class local with destructor')
                    out += ind + '%sstruct %s %s;\n' % (st, cq, nm); continue
                c = self.strip_wrappers(init[0])
                out += ind + '%sstruct %s %s; %s;\n' % (st, cq, nm, self.construct_into('&' + nm, cq, c))
                if self.scope_dtors and not st and self.has_dtor(cq):
                    if not self.scopes: raise Unsupported('class local with destructor outside a block')
                    self.scopes[-1]['locals'].append((nm, cq))
                continue
            if q.rstrip().endswith('&'):
                self.fire('R4 reference local -> pointer')
                out += ind + st + self.decl(t, v['name']) + ' = ' + self.addr(init[0]) + ';\n'; continue
            if init and init[0]['kind'] == 'CXXConstructExpr' and not self.class_of(init[0]['type']):
                init = []      # e.g. va_list: default-initialised aggregate of a system type
            out += ind + st + self.decl(t, v['name']) + ((' = ' + self.e(init[0])) if init else '') + ';\n'
        return out + self.exc_exit(n, ind)

    def s_IfStmt(self, n, ind):
        c = self.kids(n)
        if n.get('hasVar') or n.get('hasInit'): raise Unsupported('if with declaration')
        if self.exc and self.has_call(c[0]):
            self.tmpn += 1; v = 'verif_c%d' % self.tmpn
            out = self.line(n, ind) + ind + '{ _Bool %s = (%s) != 0;\n' % (v, self.e(c[0])) + self.exc_exit(c[0], ind + '  ')
            out += ind + '  if (' + v + ')\n' + self.body(c[1], ind + '  ')
            if len(c) > 2: out += ind + '  else\n' + self.body(c[2], ind + '  ')
            return out + ind + '}\n'
        out = self.line(n, ind) + ind + 'if (' + self.e(c[0]) + ')\n' + self.body(c[1], ind)
        if len(c) > 2: out += ind + 'else\n' + self.body(c[2], ind)
        return out

    def loopmark(self):
        m = '/*@LOOP %d@*/' % self.loops; self.loops += 1; return m

    def s_WhileStmt(self, n, ind):
        c = self.kids(n); m = self.loopmark(); k = self.loops - 1
        if self.exc and self.has_call(c[0]): raise Unsupported('call in a loop condition under VERIF_EXCEPTIONS')
        return self.line(n, ind) + ind + '/*@BEFORELOOP %d@*/\n' % k + ind + 'while (' + self.e(c[0]) + ') ' + m + '\n' + self.body(c[1], ind, k) + ind + '/*@AFTERLOOP %d@*/\n' % k

    def s_DoStmt(self, n, ind):
        c = self.kids(n); m = self.loopmark(); k = self.loops - 1
        if self.exc and self.has_call(c[1]): raise Unsupported('call in a loop condition under VERIF_EXCEPTIONS')
        return self.line(n, ind) + ind + '/*@BEFORELOOP %d@*/\n' % k + ind + 'do ' + m + '\n' + self.body(c[0], ind, k) + ind + 'while (' + self.e(c[1]) + ');\n' + ind + '/*@AFTERLOOP %d@*/\n' % k

    def s_ForStmt(self, n, ind):
        c = n['inner']  # init, condvar, cond, inc, body ({} placeholders when absent)
        pre = ''
        init = ';'
        if c[0].get('kind'):
            init = self.s(c[0], '')
            lines = [l for l in init.splitlines() if not l.startswith('#line')]
            init = ''.join(lines).strip()
            if len(lines) > 1:        # several declarators: hoist into an enclosing block
                cond = self.e(c[2]) if c[2].get('kind') else ''
                inc = self.e(c[3]) if c[3].get('kind') else ''
                m = self.loopmark(); k = self.loops - 1
                return self.line(n, ind) + ind + '{ ' + ' '.join(l.strip() for l in lines) + '\n' + ind + '/*@BEFORELOOP %d@*/\n' % k + ind + 'for (; ' + cond + '; ' + inc + ') ' + m + '\n' + self.body(c[4], ind, k) + ind + '/*@AFTERLOOP %d@*/\n' % k + ind + '}\n'
        if c[1].get('kind'): raise Unsupported('for with condition variable')
        cond = self.e(c[2]) if c[2].get('kind') else ''
        inc = self.e(c[3]) if c[3].get('kind') else ''
        m = self.loopmark(); k = self.loops - 1
        return self.line(n, ind) + ind + '/*@BEFORELOOP %d@*/\n' % k + ind + 'for (' + init + ' ' + cond + '; ' + inc + ') ' + m + '\n' + self.body(c[4], ind, k) + ind + '/*@AFTERLOOP %d@*/\n' % k

    def s_ReturnStmt(self, n, ind):
        c = self.kids(n)
        live = [sc for sc in self.live_scopes() if sc['locals']] if self.scope_dtors else []
        if live:
            d = self.dtor_calls(live, ind + '  ')
            if not c: return self.line(n, ind) + ind + '{\n' + d + ind + '  return;\n' + ind + '}\n'
            if self.ret_slot:
                self.fire('R11 by-value class return -> out-parameter')
                x = self.strip_wrappers(c[0])
                return self.line(n, ind) + ind + '{\n' + ind + '  %s;\n' % self.construct_into(self.ret_slot, self.ret_class, x) + d + ind + '  return %s;\n' % self.ret_slot + ind + '}\n'
            if self.ret_ref:
                self.fire('R4 reference return -> address')
                return self.line(n, ind) + ind + '{\n' + ind + '  void *verif_rv = (void *)' + self.addr(c[0]) + ';\n' + d + ind + '  return verif_rv;\n' + ind + '}\n'
            return self.line(n, ind) + ind + '{\n' + ind + '  ' + self.decl(c[0]['type'], 'verif_rv') + ' = ' + self.e(c[0]) + ';\n' + d + ind + '  return verif_rv;\n' + ind + '}\n'
        if not c: return self.line(n, ind) + ind + 'return;\n'
        if self.exc and self.has_call(c[0]) and not self.ret_slot and not self.ret_ref:
            return self.line(n, ind) + ind + '{\n' + ind + '  ' + self.decl(c[0]['type'], 'verif_rv') + ' = ' + self.e(c[0]) + ';\n' + self.exc_exit(c[0], ind + '  ') + ind + '  return verif_rv;\n' + ind + '}\n'
        if self.ret_slot:
            self.fire('R11 by-value class return -> out-parameter')
            x = self.strip_wrappers(c[0])
            return self.line(n, ind) + ind + '{ %s; return %s; }\n' % (self.construct_into(self.ret_slot, self.ret_class, x), self.ret_slot)
        if self.ret_ref:
            self.fire('R4 reference return -> address')
            return self.line(n, ind) + ind + 'return ' + self.addr(c[0]) + ';\n'
        return self.line(n, ind) + ind + 'return ' + self.e(c[0]) + ';\n'

    def s_NullStmt(self, n, ind): return ind + ';\n'
    def s_BreakStmt(self, n, ind):
        live = [sc for sc in self.live_scopes(('loop', 'switch')) if sc['locals']] if self.scope_dtors else []
        return (self.dtor_calls(live, ind) if live else '') + ind + 'break;\n'
    def s_ContinueStmt(self, n, ind):
        live = [sc for sc in self.live_scopes(('loop',)) if sc['locals']] if self.scope_dtors else []
        return (self.dtor_calls(live, ind) if live else '') + ind + 'continue;\n'

    def s_SwitchStmt(self, n, ind):
        c = self.kids(n)
        return self.line(n, ind) + ind + 'switch (' + self.e(c[0]) + ')\n' + self.body(c[1], ind, boundary='switch')
    def s_CaseStmt(self, n, ind):
        c = self.kids(n)
        return ind + 'case ' + self.e(c[0]) + ':\n' + self.s(c[-1], ind + '  ')
    def s_DefaultStmt(self, n, ind):
        c = self.kids(n)
        return ind + 'default:\n' + self.s(c[-1], ind + '  ')
    def s_CXXTryStmt(self, n, ind):
        if not self.exc: raise Unsupported('try/catch has no rule')
        self.fire('R13b try/catch -> handler labels')
        c = self.kids(n)
        k = self.tryn; self.tryn += 1
        lc, le, cv = 'verif_catch%d' % k, 'verif_endtry%d' % k, 'verif_caught%d' % k
        out = self.line(n, ind) + ind + '{\n'
        self.try_stack.append(lc)
        out += self.block(c[0], ind + '  ')
        self.try_stack.pop()
        out += ind + '  goto %s;\n' % le + ind + '  %s: ;\n' % lc
        out += ind + '  { int %s = verif_exc; verif_exc = 0;\n' % cv
        first = True; catch_all = False
        self.caught_stack.append(cv)
        for h in c[1:]:
            if h['kind'] != 'CXXCatchStmt': raise Unsupported('try child ' + h['kind'])
            hk = self.kids(h)
            var = hk[0] if hk and hk[0].get('kind') == 'VarDecl' else None
            body = hk[-1]
            pre = ''
            if var is None:
                cond = None; catch_all = True
            else:
                q = var['type']['qualType']
                if 'CppUTestFailedException' in q: cond = '%s == VERIF_EXC_CppUTestFailedException' % cv
                elif 'std::exception' in q: cond = '%s == VERIF_EXC_std' % cv
                else: raise Unsupported('catch of ' + q)
                if var.get('name'):
                    pre = ind + '      static struct verif_std_exception verif_eobj%d; const struct verif_std_exception *%s = &verif_eobj%d;\n' % (k, var['name'], k)
            head = ('if (%s)' % cond) if cond else ''
            out += ind + '    ' + ('' if first else 'else ') + head + '\n' + ind + '    {\n' + pre + self.block(body, ind + '      ') + ind + '    }\n'
            first = False
            if catch_all: break
        self.caught_stack.pop()
        if not catch_all:
            out += ind + '    else { verif_exc = %s; %s }\n' % (cv, ('goto %s;' % self.try_stack[-1]) if self.try_stack else self.propagate(ind))
        out += ind + '  }\n' + ind + '  %s: ;\n' % le + ind + '}\n'
        return out
    def s_LabelStmt(self, n, ind):
        return ind + n['name'] + ':\n' + self.s(self.kids(n)[0], ind)
    def s_GotoStmt(self, n, ind):
        raise Unsupported('goto')

    # ---- expressions
    def e(self, n):
        k = n['kind']
        f = getattr(self, 'e_' + k, None)
        if not f: raise Unsupported('expr ' + k)
        return f(n)

    def e_ParenExpr(self, n): return '(' + self.e(self.kids(n)[0]) + ')'
    def e_ConstantExpr(self, n): return self.e(self.kids(n)[0])
    def e_IntegerLiteral(self, n):
        t = n['type'].get('desugaredQualType') or n['type']['qualType']; v = n['value']
        suf = {'unsigned int': 'u', 'long': 'l', 'unsigned long': 'ul', 'long long': 'll', 'unsigned long long': 'ull'}.get(t, '')
        return v + suf
    def e_CharacterLiteral(self, n): return '((char)%d)' % n['value']
    def e_FloatingLiteral(self, n):
        v = n['value']
        if not re.search(r'[.eE]', v): v += '.0'
        if n['type']['qualType'] == 'float': v += 'f'
        return v
    def e_StringLiteral(self, n): return n['value']
    def e_CXXBoolLiteralExpr(self, n): return '1' if n['value'] else '0'
    def e_CXXNullPtrLiteralExpr(self, n): return '((void*)0)'
    def e_GNUNullExpr(self, n): return '((void*)0)'
    def e_ImplicitValueInitExpr(self, n): return '0'
    def e_CXXScalarValueInitExpr(self, n): return '((' + self.ctype(n['type']) + ')0)'
    def e_PredefinedExpr(self, n): return self.e(self.kids(n)[0])

    def e_DeclRefExpr(self, n):
        d = n['referencedDecl']; k = d['kind']
        full = self.tu.byid.get(d['id'], d)
        if k == 'EnumConstantDecl':
            return self.prelude.enumerator(full)
        if k in ('FunctionDecl', 'CXXMethodDecl'):
            nm = self.namer.cname(full) if '_qn' in full else d['name']
            self.calls.add(nm)
            return nm
        if k in ('VarDecl',):
            nm = self.prelude.varname(full)
            if full.get('_global'): self.globals_used.add(nm)
            q = d['type']['qualType']
            if q.rstrip().endswith('&'):
                self.fire('R4 reference -> pointer deref'); return '(*' + nm + ')'
            return nm
        if k == 'ParmVarDecl':
            q = d['type']['qualType']
            if q.rstrip().endswith('&'):
                self.fire('R4 reference -> pointer deref'); return '(*' + d['name'] + ')'
            if self.class_of(d['type']) and '*' not in q:
                self.fire('R4b by-value class parameter -> pointer'); return '(*' + d['name'] + ')'
            return d['name']
        if k == 'FieldDecl':
            return d['name']
        raise Unsupported('declref ' + k)

    def e_CXXThisExpr(self, n): self.fire('R2 this -> self'); return 'self'

    def e_MemberExpr(self, n):
        b = self.kids(n)[0]
        mid = n.get('referencedMemberDecl')
        md = self.tu.byid.get(mid, {})
        if md.get('kind') == 'VarDecl':      # static data member through an object
            return self.prelude.varname(md)
        if md.get('kind') == 'EnumConstantDecl':
            return self.prelude.enumerator(md)
        bx = self.e(b)
        nm = n['name']
        # anonymous union/struct members are reached through the emitted name
        r = '(' + bx + ')' + ('->' if n.get('isArrow') else '.') + self.prelude.fieldpath(md, nm)
        if md.get('type', {}).get('qualType', '').rstrip().endswith('&'):
            self.fire('R4 reference member -> pointer'); return '(*' + r + ')'     # the field holds a pointer (see em_ctor_init)
        return r

    def e_ArraySubscriptExpr(self, n):
        a, i = self.kids(n); return self.e(a) + '[' + self.e(i) + ']'
    def e_UnaryOperator(self, n):
        x = self.e(self.kids(n)[0]); op = n['opcode']
        if op == '__extension__': return x
        return ('(' + x + ')' + op) if n.get('isPostfix') else ('(' + op + '(' + x + '))')
    def e_BinaryOperator(self, n):
        a, b = self.kids(n)
        if n['opcode'] == '=' and self.class_of(n['type']) and '*' not in n['type']['qualType']:
            raise Unsupported('trivial class assignment')
        return '(' + self.e(a) + ' ' + n['opcode'] + ' ' + self.e(b) + ')'
    e_CompoundAssignOperator = e_BinaryOperator
    def e_ConditionalOperator(self, n):
        a, b, c = self.kids(n); return '(' + self.e(a) + ' ? ' + self.e(b) + ' : ' + self.e(c) + ')'

    def e_ImplicitCastExpr(self, n):
        ck = n.get('castKind')
        sub = self.kids(n)[0]
        if ck in ('LValueToRValue', 'NoOp', 'ArrayToPointerDecay', 'FunctionToPointerDecay', 'BuiltinFnToFnPtr', 'ConstructorConversion', 'UserDefinedConversion'):
            return self.e(sub)
        x = self.e(sub)
        if ck == 'NullToPointer': return '((' + self.ctype(n['type']) + ')0)'
        if ck in ('IntegralToBoolean', 'PointerToBoolean', 'FloatingToBoolean'): return '((' + x + ') != 0)'
        if ck in ('IntegralCast', 'BitCast', 'IntegralToFloating', 'FloatingToIntegral', 'FloatingCast', 'IntegralToPointer', 'PointerToIntegral', 'BooleanToSignedIntegral', 'ToVoid'):
            self.fire('R5 implicit conversion -> explicit cast')
            return '((' + self.ctype(n['type']) + ')(' + x + '))'
        if ck in ('DerivedToBase', 'UncheckedDerivedToBase'):
            self.fire('R12 derived->base pointer cast')
            q = n['type']['qualType']
            if '*' in q: return '((' + self.ctype(n['type']) + ')(' + x + '))'
            cq = self.class_of(n['type'])
            return '(*(struct %s *)&(%s))' % (cq, x)
        raise Unsupported('cast ' + str(ck))

    def e_CStyleCastExpr(self, n):
        ck = n.get('castKind')
        sub = self.kids(n)[0]
        if ck == 'ConstructorConversion': return self.e(sub)
        if ck == 'ToVoid': return '((void)(' + self.e(sub) + '))'
        if ck in ('BaseToDerived',):
            self.fire('R12 base->derived pointer cast')
        if ck == 'NoOp' and self.class_of(n['type']) and '*' not in n['type']['qualType']:
            return self.e(sub)
        return '((' + self.ctype(n['type']) + ')(' + self.e(sub) + '))'
    e_CXXStaticCastExpr = e_CStyleCastExpr
    e_CXXReinterpretCastExpr = e_CStyleCastExpr
    e_CXXFunctionalCastExpr = e_CStyleCastExpr
    e_CXXConstCastExpr = e_CStyleCastExpr

    def e_UnaryExprOrTypeTraitExpr(self, n):
        if n.get('name') != 'sizeof': raise Unsupported('trait')
        if 'argType' in n: return 'sizeof(' + self.ctype(n['argType']) + ')'
        return 'sizeof(' + self.e(self.kids(n)[0]) + ')'

    def e_VAArgExpr(self, n):
        return '__builtin_va_arg(' + self.e(self.kids(n)[0]) + ', ' + self.ctype(n['type']) + ')'

    # ---- calls
    def default_arg(self, callee, i):
        ds = [callee] + [f for f in self.tu.funcs.get(callee.get('_qn'), []) if sig_key(f) == sig_key(callee)]
        for d in ds:
            ps = params_of(d)
            if i < len(ps):
                k = self.kids(ps[i])
                if k:
                    self.fire('R6 default argument materialised')
                    return k[0]
        raise Unsupported('default argument not found')

    def bind_args(self, callee, ptypes, args):
        out = []
        for i, a in enumerate(args):
            pt = ptypes[i] if i < len(ptypes) else ''
            if a['kind'] == 'CXXDefaultArgExpr':
                if not callee: raise Unsupported('default arg without callee')
                a = self.default_arg(callee, i)
            if pt.rstrip().endswith('&'):
                self.fire('R4 reference binding -> address'); out.append(self.addr(a))
            elif self.prelude.class_of({'qualType': pt}) and '*' not in pt:
                self.fire('R4b by-value class argument -> address'); out.append(self.addr(a))
            else:
                out.append(self.e(a))
        return out

    def addr(self, a):
        x = self.e(a).strip()
        if x.startswith('(*') and x.endswith(')') and self._balanced(x[2:-1]):
            return x[2:-1]
        return '&(' + x + ')'

    @staticmethod
    def _balanced(s):
        d = 0
        for ch in s:
            d += ch == '('; d -= ch == ')'
            if d < 0: return False
        return d == 0

    def strip_wrappers(self, n):
        while n['kind'] in ('ExprWithCleanups', 'CXXBindTemporaryExpr', 'MaterializeTemporaryExpr') or \
                (n['kind'] == 'ImplicitCastExpr' and n.get('castKind') in ('NoOp', 'ConstructorConversion')) or \
                (n['kind'] in ('CXXFunctionalCastExpr', 'CStyleCastExpr', 'CXXStaticCastExpr') and n.get('castKind') in ('ConstructorConversion', 'NoOp') and self.class_of(n['type'])):
            n = self.kids(n)[0]
        return n

    def ctor_decl(self, c):
        """find the constructor decl a CXXConstructExpr names"""
        cq = self.class_of(c['type'])
        if not cq: raise Unsupported('construction of non-repo type ' + c['type']['qualType'])
        want = mangle_types(split_params(c['ctorType']['qualType']))
        for f in self.tu.funcs.get(cq + '::' + cq.split('__')[-1], []):
            if f['kind'] == 'CXXConstructorDecl' and sig_key(f) == want: return f
        return None

    def construct_into(self, slot, cq, c):
        """emit an expression that constructs class cq into *slot from init expression c"""
        c = self.strip_wrappers(c)
        k = c['kind']
        if k in ('CXXConstructExpr', 'CXXTemporaryObjectExpr'):
            if c.get('elidable') and len(self.kids(c)) == 1:
                return self.construct_into(slot, cq, self.kids(c)[0])
            f = self.ctor_decl(c)
            ps = split_params(c['ctorType']['qualType'])
            if f is None:
                # implicit copy / default constructor
                if len(ps) == 0:
                    dd = self.tu.records[cq].get('definitionData', {}).get('defaultCtor', {})
                    if not dd.get('trivial') and not dd.get('defaultedIsConstexpr') and dd.get('nonTrivial'):
                        raise Unsupported('non-trivial implicit default constructor of ' + cq)
                    self.fire('R9b trivial implicit default ctor -> nothing'); return '((void)0, %s)' % slot
                self.fire('R9c implicit copy ctor -> struct copy')
                return '(*(%s) = %s)' % (slot, self.e(self.kids(c)[0]))
            name = self.namer.cname(f); self.calls.add(name)
            args = self.bind_args(f, ps, self.kids(c))
            return '%s(%s)' % (name, ', '.join([slot] + args))
        if k in ('CallExpr', 'CXXMemberCallExpr', 'CXXOperatorCallExpr') and self.returns_class(c):
            name, args = self.callee_and_args(c)
            self.fire('R11 by-value class return -> out-parameter')
            return '%s(%s)' % (name, ', '.join([slot] + args))
        if k == 'ConditionalOperator':
            a, b, d = self.kids(c)
            return '(%s ? (void)%s : (void)%s)' % (self.e(a), self.construct_into(slot, cq, b), self.construct_into(slot, cq, d))
        # lvalue of class type: copy
        self.fire('R9c copy from lvalue -> copy ctor')
        f = self.copy_ctor(cq)
        if f is not None:
            name = self.namer.cname(f); self.calls.add(name)
            return '%s(%s, %s)' % (name, slot, self.addr(c))
        return '(*(%s) = %s)' % (slot, self.e(c))

    def copy_ctor(self, cq):
        for f in self.tu.funcs.get(cq + '::' + cq.split('__')[-1], []):
            if f['kind'] == 'CXXConstructorDecl':
                ps = split_params(f['type']['qualType'])
                if len(ps) == 1 and re.sub(r'\s+', '', ps[0]) in ('const' + cq + '&', cq + '&', 'const' + cq.split('__')[-1] + '&'):
                    return f
        return None

    def returns_class(self, n):
        t = n.get('type', {})
        return bool(self.class_of(t)) and not t.get('qualType', '').rstrip().endswith(('*', '&')) and n.get('valueCategory') == 'prvalue'

    def temp(self, cq):
        self.fire('R10 temporary -> compound literal')
        return '&(struct %s){0}' % cq

    def e_ExprWithCleanups(self, n): return self.e(self.kids(n)[0])
    def e_CXXBindTemporaryExpr(self, n): return self.e(self.kids(n)[0])
    def e_MaterializeTemporaryExpr(self, n): return self.e(self.kids(n)[0])
    def e_CXXConstructExpr(self, n):
        cq = self.class_of(n['type'])
        if n.get('elidable') and len(self.kids(n)) == 1: return self.e(self.kids(n)[0])
        return '(*%s)' % self.construct_into(self.temp(cq), cq, n)
    e_CXXTemporaryObjectExpr = e_CXXConstructExpr

    def callee_decl(self, f):
        while f['kind'] in ('ImplicitCastExpr', 'ParenExpr'): f = self.kids(f)[0]
        if f['kind'] == 'DeclRefExpr':
            d = f['referencedDecl']
            return self.tu.byid.get(d['id'], d), f
        return None, f

    def callee_and_args(self, n):
        c = self.kids(n)
        if n['kind'] == 'CXXMemberCallExpr':
            me = c[0]
            while me['kind'] in ('ParenExpr', 'ImplicitCastExpr'): me = self.kids(me)[0]
            if me['kind'] != 'MemberExpr': raise Unsupported('callee ' + me['kind'])
            base = self.kids(me)[0]
            md = self.tu.byid.get(me.get('referencedMemberDecl'))
            if md is None: raise Unsupported('unknown member callee')
            obj = self.e(base) if me.get('isArrow') else self.addr(base)
            # receiver static type decides the callee class (R3); methods inherited from a base
            # are named after the class that declares them
            name = self.namer.cname(md); had = name in self.calls; self.calls.add(name)
            owner = md.get('_cls')
            bt = self.class_of(base['type'])
            if bt and owner and bt != owner:
                self.fire('R12 derived->base receiver cast')
                obj = '((struct %s *)(%s))' % (owner, obj)
            if md.get('virtual'): self.fire('R3v virtual call -> static-type contract')
            # opt-in per proof (@define VERIF_VIRTUAL_DISPATCH; C17 plugin chains): a virtual call through a pointer
            # goes to <name>__virt, the hand-written dispatcher over the overrides that the proof supplies (DESIGN R3)
            if me.get('isArrow') and '-DVERIF_VIRTUAL_DISPATCH' in getattr(self.tu, 'cmd', []):
                virt, d0, hops = False, md, 0
                while d0 is not None and hops < 8:      # 'virtual' sits on the in-class declaration, not on the out-of-line definition
                    if d0.get('virtual'): virt = True; break
                    d0 = self.tu.byid.get(d0.get('previousDecl')); hops += 1
                if virt:
                    if not had: self.calls.discard(name)
                    name += '__virt'; self.calls.add(name); self.fire('R3d virtual call -> proof-supplied dispatcher')
            self.fire('R3 member call -> free function')
            ps = split_params(md['type']['qualType'])
            if is_static_method(self.tu, md): return name, self.bind_args(md, ps, c[1:])
            return name, [obj] + self.bind_args(md, ps, c[1:])
        if n['kind'] == 'CXXOperatorCallExpr':
            d, fx = self.callee_decl(c[0])
            if d is None: raise Unsupported('operator callee')
            ps = split_params(d['type']['qualType']); self.fire('R8 operator call -> named function')
            name = self.namer.cname(d); self.calls.add(name)
            if d['kind'] == 'CXXMethodDecl':
                return name, [self.addr(c[1])] + self.bind_args(d, ps, c[2:])
            return name, self.bind_args(d, ps, c[1:])
        d, fx = self.callee_decl(c[0])
        if d is not None and d.get('kind') in ('FunctionDecl', 'CXXMethodDecl'):
            ps = split_params(d['type']['qualType'])
            if '_qn' in d:
                name = self.namer.cname(d)
            else:
                name = d['name']
            self.calls.add(name)
            return name, self.bind_args(d, ps, c[1:])
        if fx['kind'] == 'MemberExpr':
            md = self.tu.byid.get(fx.get('referencedMemberDecl'))
            if md is not None and md.get('kind') == 'CXXMethodDecl' and is_static_method(self.tu, md):
                # static member function called through an object expression (obj->f()): the object is not an argument
                self.fire('R3 member call -> free function')
                name = self.namer.cname(md); self.calls.add(name)
                return name, self.bind_args(md, split_params(md['type']['qualType']), c[1:])
        # call through a function pointer expression
        fexpr = self.e(c[0])
        t = c[0]['type']['qualType']
        ps = split_params(t) if '(' in t else []
        if d is not None and d.get('kind') == 'VarDecl':
            self.calls.add(self.prelude.varname(d))
        return fexpr, self.bind_args(None, ps, c[1:])

    def e_CallExpr(self, n):
        if n['kind'] == 'CXXOperatorCallExpr':
            c = self.kids(n)
            d, fx = self.callee_decl(c[0])
            if d is not None and d.get('isImplicit') and d.get('name') == 'operator=' and len(c) == 3:
                # implicitly defined (memberwise) copy assignment of a class without user operator=: struct assignment
                self.fire('R9d implicit copy assignment -> struct assignment')
                return '(' + self.e(c[1]) + ' = ' + self.e(c[2]) + ')'
        if self.returns_class(n):
            cq = self.class_of(n['type'])
            name, args = self.callee_and_args(n)
            self.fire('R11 by-value class return -> out-parameter')
            return '(*%s(%s))' % (name, ', '.join([self.temp(cq)] + args))
        name, args = self.callee_and_args(n)
        r = name + '(' + ', '.join(args) + ')'
        if n['type']['qualType'].rstrip().endswith('&') or (n.get('valueCategory') == 'lvalue' and n['kind'] != 'CallExpr'):
            return '(*' + r + ')'
        if n.get('valueCategory') == 'lvalue':
            return '(*' + r + ')'
        return r
    e_CXXMemberCallExpr = e_CallExpr
    e_CXXOperatorCallExpr = e_CallExpr

    def e_CXXNewExpr(self, n):
        if n.get('isArray'):
            # R16a: new T[n] for pointer/scalar T only (no element constructors to run): n * sizeof(T) fresh bytes
            # from the seam VERIF_operator_new_array (declared by its @stub); the (file, line) placement arguments
            # of the leak-detecting operator new[] are dropped as in R16
            et = n['type']['qualType'].strip()
            elem = et[:-1].strip() if et.endswith('*') else ''
            ond = re.sub(r'\s+', '', n.get('operatorNewDecl', {}).get('type', {}).get('qualType', ''))
            if not elem or (not elem.endswith('*') and self.class_of({'qualType': elem})) or \
               (n.get('isPlacement') and ond not in ('void*(size_t,constchar*,size_t)', 'void*(size_t,constchar*,int)')):
                raise Unsupported('new[] has no rule')
            self.fire('R16a new T[n] (pointer/scalar T) -> VERIF_operator_new_array'); self.calls.add('VERIF_operator_new_array')
            return '((%s)VERIF_operator_new_array((size_t)(%s), sizeof(%s)))' % (self.ctype({'qualType': et}), self.e(self.kids(n)[0]), self.ctype({'qualType': elem}))
        c = self.kids(n)
        if n.get('isPlacement'):
            ond = n.get('operatorNewDecl', {}).get('type', {}).get('qualType', '')
            if re.sub(r'\s+', '', ond) not in ('void*(size_t,constchar*,size_t)', 'void*(size_t,constchar*,int)'):
                raise Unsupported('placement new ' + ond)
            c = [x for x in c if self.strip_wrappers(x)['kind'] in ('CXXConstructExpr', 'CXXTemporaryObjectExpr')]   # the (file, line) arguments of the leak-detecting operator new are dropped
        cq = self.class_of({'qualType': n['type']['qualType'].rstrip('* ')})
        if not cq: raise Unsupported('new of non-class')
        self.fire('R16 new T(args) -> ctor on VERIF_operator_new')
        slot = '((struct %s *)VERIF_operator_new(sizeof(struct %s)))' % (cq, cq)
        self.calls.add('VERIF_operator_new')
        if not c: return slot
        self.tmpn += 1
        v = 'verif_new%d' % self.tmpn
        return '({ struct %s *%s = %s; %s; %s; })' % (cq, v, slot, self.construct_into(v, cq, c[0]), v)

    def e_CXXDeleteExpr(self, n):
        # R16b: delete p -> if (p) { T_dtor(p) (class with a non-trivial destructor; the dynamic type's destructor through
        # T_dtor__virt when the destructor is virtual and the proof opted into VERIF_VIRTUAL_DISPATCH); VERIF_operator_delete(p) }
        # delete[] p of scalars/pointers -> VERIF_operator_delete_array(p); delete[] of class objects has no rule
        c = self.kids(n)[0]
        pt = c['type']['qualType'].strip()
        if not pt.endswith('*'): raise Unsupported('delete of non-pointer ' + pt)
        elem = pt[:-1].strip()
        cq = None if elem.endswith('*') else self.class_of({'qualType': elem})
        self.tmpn += 1
        v = 'verif_del%d' % self.tmpn
        if n.get('isArray'):
            if cq and self.has_dtor(cq): raise Unsupported('delete[] of class objects has no rule')
            self.fire('R16b delete[] p -> VERIF_operator_delete_array'); self.calls.add('VERIF_operator_delete_array')
            return '({ void *%s = (void *)(%s); if (%s) VERIF_operator_delete_array(%s); })' % (v, self.e(c), v, v)
        self.fire('R16b delete p -> destructor + VERIF_operator_delete'); self.calls.add('VERIF_operator_delete')
        d = ''
        if cq and self.has_dtor(cq):
            nm = self.dtor_name(cq)
            virt = False
            for f in self.tu.funcs.get(cq + '::~' + cq.split('__')[-1], []):
                if f.get('virtual'): virt = True
            if virt and '-DVERIF_VIRTUAL_DISPATCH' in getattr(self.tu, 'cmd', []):
                self.calls.discard(nm); nm += '__virt'; self.calls.add(nm); self.fire('R3d virtual call -> proof-supplied dispatcher')
            elif virt: self.fire('R3v virtual call -> static-type contract')
            d = '%s((struct %s *)%s); ' % (nm, cq, v)
        return '({ void *%s = (void *)(%s); if (%s) { %sVERIF_operator_delete(%s); } })' % (v, self.e(c), v, d, v)
    def e_CXXThrowExpr(self, n):
        if self.exc:
            c = self.kids(n)
            self.fire('R13b throw -> exception in flight')
            if not c:
                if not self.caught_stack: raise Unsupported('rethrow outside a handler')
                return '(verif_exc = %s)' % self.caught_stack[-1]
            t = self.class_of(c[0]['type']) or c[0]['type'].get('qualType', '')
            kind = 'VERIF_EXC_CppUTestFailedException' if 'CppUTestFailedException' in t else ('VERIF_EXC_std' if ('bad_alloc' in t or 'std::' in t) else 'VERIF_EXC_foreign')
            return '(verif_exc = %s)' % kind
        self.fire('R13 throw -> VERIF_throw'); self.calls.add('VERIF_throw')
        c = self.kids(n)
        t = self.class_of(c[0]['type']) if c else None
        return 'VERIF_throw("%s")' % (t or 'rethrow')
    def e_InitListExpr(self, n):
        return '{' + ', '.join(self.e(c) for c in self.kids(n)) + '}'

    def e_CXXDefaultArgExpr(self, n): raise Unsupported('default arg outside call')


def emit_function(tu, namer, prelude, f):
    """returns dict(cname, text, rules, loops, calls, proto)"""
    em = Emitter(tu, namer, prelude)
    cname = namer.cname(f)
    proto, ret_slot, ret_class = prelude.prototype(f, cname)
    em.ret_slot = ret_slot; em.ret_class = ret_class; em.ret_ref = f.get('_ret_ref', False)
    em.cur = cname
    rt = f['type']['qualType'].split('(')[0].strip()
    if f['kind'] in ('CXXConstructorDecl', 'CXXDestructorDecl') or rt == 'void': em.ret_default = 'return;'
    elif ret_slot: em.ret_default = 'return %s;' % ret_slot
    else: em.ret_default = 'return 0;'
    body = [c for c in f['inner'] if c.get('kind') in ('CompoundStmt', 'CXXTryStmt')][0]
    if body['kind'] == 'CXXTryStmt': raise Unsupported('function try block')
    pre = ''
    if f['kind'] == 'CXXConstructorDecl':
        for ini in [c for c in f['inner'] if c.get('kind') == 'CXXCtorInitializer']:
            pre += em_ctor_init(em, f, ini)
    if not is_static_method(tu, f): em.fire('R1 method -> function with self')
    txt = em.s(body, '')
    # splice ctor initialisers and ENTRY marker after the opening brace
    i = txt.index('{\n') + 2
    tail = txt[i:]
    if f['kind'] == 'CXXConstructorDecl':
        j = tail.rindex('}')
        tail = tail[:j] + '  return self;\n' + tail[j:]
        txt0 = txt[:i] + '/*@ENTRY@*/\n' + pre + tail
        # early returns inside constructors
        txt0 = re.sub(r'\breturn;', 'return self;', txt0)
        txt = txt0
    else:
        if f['kind'] == 'CXXDestructorDecl':      # member / base destructor calls are part of every destructor (R17), opt-in or not
            epi = dtor_epilogue(em, f)
            if epi:
                if re.search(r'\breturn\b', tail): raise Unsupported('early return in a destructor with member destructors')
                j = tail.rindex('}')
                tail = tail[:j] + epi + tail[j:]
        txt = txt[:i] + '/*@ENTRY@*/\n' + pre + tail
    fl, ln = tu.line_of(f)
    return dict(cname=cname, proto=proto, text=proto + '\n/*@CONTRACT@*/\n' + txt, rules=em.rules, loops=em.loops,
                calls=em.calls, globals=em.globals_used, file=fl, line=ln, srchash=tu.source_range_hash(f))


def dtor_epilogue(em, f):
    """R17: after a destructor's body, the destructors of the class-type members (reverse declaration order), then of the bases"""
    rec = em.tu.records.get(f.get('_cls'))
    if rec is None: raise Unsupported('destructor of unknown record')
    out = ''
    flds = [c for c in rec.get('inner', []) if c.get('kind') == 'FieldDecl']
    for fd in reversed(flds):
        q = fd['type']['qualType']
        cq = em.class_of(fd['type'])
        if cq and '*' not in q and '&' not in q and em.has_dtor(cq):
            if '[' in q: raise Unsupported('array member with destructor')
            em.fire('R17 member destructor call')
            out += '  %s(&self->%s);\n' % (em.dtor_name(cq), fd['name'])
    for b in reversed(rec.get('bases', [])):
        cq = em.class_of(b['type'])
        if cq and em.has_dtor(cq):
            em.fire('R17 base destructor call')
            out += '  %s((struct %s *)self);\n' % (em.dtor_name(cq), cq)
    return out


def em_ctor_init(em, f, ini):
    kids = [c for c in ini.get('inner', [])]
    if 'anyInit' in ini:
        fld = ini['anyInit']; nm = fld['name']
        cq = em.class_of(fld['type'])
        if cq and '*' not in fld['type']['qualType'] and '&' not in fld['type']['qualType']:
            em.fire('R9 class member -> ctor call')
            return '  %s;\n' % em.construct_into('&self->' + nm, cq, kids[0])
        if fld['type']['qualType'].rstrip().endswith('&'):
            em.fire('R4 reference member -> pointer')
            return '  self->%s = %s;\n' % (nm, em.addr(kids[0]))
        if '[' in fld['type']['qualType']:
            k0 = kids[0]
            if k0['kind'] == 'ImplicitValueInitExpr' or (k0['kind'] == 'InitListExpr' and not k0.get('inner')):
                return '  __builtin_memset(self->%s, 0, sizeof(self->%s));\n' % (nm, nm)
            raise Unsupported('array member initialiser')
        return '  self->%s = %s;\n' % (nm, em.e(kids[0]))
    if 'baseInit' in ini:
        cq = em.class_of(ini['baseInit'])
        em.fire('R12 base ctor call')
        return '  %s;\n' % em.construct_into('((struct %s *)self)' % cq, cq, kids[0])
    raise Unsupported('ctor initialiser kind')


# ----------------------------------------------------------------------------------------------
BUILTIN_WORDS = set('verif_std_exception verif_std_nothrow_t __va_list_tag const volatile unsigned signed char short int long float double void _Bool bool struct union enum restrict __restrict'.split())

class Prelude:
    """types, records (R7), enums, typedefs, globals (R14), prototypes"""

    def __init__(self, tu, namer):
        self.tu = tu; self.namer = namer
        self.known = set(KEEP_TYPEDEFS)
        self.recnames = set(tu.records.keys())
        self.enumnames = set()
        for e in tu.enums:
            if e.get('name'):
                self.enumnames.add(self._enum_cname(e))
        self.tdnames = set(t['name'] for t in tu.typedefs)
        self.known |= self.recnames | self.enumnames | self.tdnames | tu.recdecls | tu.sysnames
        self.known_tags = self.recnames | self.enumnames | tu.recdecls
        self.cname2decl = None
        self._mark_globals()

    def _enum_cname(self, e):
        return (e['_cls'] + '__' if e.get('_cls') else '') + e['name']

    def _mark_globals(self):
        self.globals = {}
        def walk(n, depth_fn):
            k = n.get('kind')
            if k in ('FunctionDecl', 'CXXMethodDecl', 'CXXConstructorDecl', 'CXXDestructorDecl'):
                return
            if k == 'VarDecl' and self.tu.in_repo(n):
                n['_global'] = True
                self.globals.setdefault(self.varname(n), []).append(n)
            for c in n.get('inner', []): walk(c, depth_fn)
        walk(self.tu.root, 0)

    # ---- names
    def varname(self, v):
        if v.get('_cls') and v.get('_global', True) and v.get('kind') == 'VarDecl' and self._is_static_member(v):
            return v['_cls'] + '_' + v['name']
        return v['name']

    def _is_static_member(self, v):
        return bool(v.get('_cls')) and (v.get('storageClass') == 'static' or v.get('parentDeclContextId') in self.tu.byid and self.tu.byid[v['parentDeclContextId']].get('kind') == 'CXXRecordDecl')

    def enumerator(self, d):
        return d['name']

    def fieldpath(self, md, nm):
        return nm

    # ---- types
    def _norm(self, q):
        q = q.replace('&&', '*').replace('&', '*')
        q = q.replace('::', '__')
        q = re.sub(r'\b(class|struct|enum|union)\s+(?=(%s)\b)' % '|'.join(sorted(self.known_tags, key=len, reverse=True)), '', q) if self.known_tags else q
        q = re.sub(r'\bclass\s+', 'struct ', q)
        q = q.replace('std__nullptr_t', 'void *')
        q = re.sub(r'\bstd__exception\b', 'struct verif_std_exception', q)      # R13b: opaque stand-in for the caught object
        q = re.sub(r'\bstd__nothrow_t\b', 'struct verif_std_nothrow_t', q)    # the tag type of the nothrow operator new / delete forms
        q = re.sub(r'\s*noexcept(\([a-z]*\))?', '', q)
        q = re.sub(r'\b__va_list_tag \*', 'va_list ', q)
        return q

    def _unknown(self, q):
        return [w for w in re.findall(r'[A-Za-z_][A-Za-z_0-9]*', q) if w not in BUILTIN_WORDS and w not in self.known]

    def ctype(self, t):
        if isinstance(t, str): t = {'qualType': t}
        q = self._norm(t['qualType'])
        if self._unknown(q) and 'desugaredQualType' in t:
            q2 = self._norm(t['desugaredQualType'])
            if not self._unknown(q2): q = q2
        bad = self._unknown(q)
        if bad or '<' in q: raise Unsupported('type %s (unknown %s)' % (t['qualType'], bad))
        q = re.sub(r'\bbool\b', '_Bool', q)
        return q

    def class_of(self, t):
        if isinstance(t, str): t = {'qualType': t}
        for q in (t.get('qualType', ''), t.get('desugaredQualType', '')):
            q = re.sub(r'\[\d*\]', '', self._norm(q).replace('const ', '').replace('volatile ', '').replace('*', '')).replace('const', '').strip()
            if q in self.recnames: return q
        return None

    def decl(self, t, name):
        ct = self.ctype(t)
        return self._declarator(ct, name)

    @staticmethod
    def _declarator(ct, name):
        m = re.match(r'^(.*?)\(\*(const)?\)\s*(\(.*\))$', ct)
        if m: return '%s(*%s)%s' % (m.group(1), name, m.group(3))
        m = re.match(r'^(.*?)\s*((\[\d*\])+)$', ct)
        if m: return '%s %s%s' % (m.group(1), name, m.group(2))
        return '%s %s' % (ct, name)

    # ---- prototypes
    def prototype(self, f, cname):
        ft = f['type']['qualType']
        # return type = text before the parameter list group
        depth = 0; groups = []; start = None
        for j, ch in enumerate(ft):
            if ch == '(':
                if depth == 0: start = j
                depth += 1
            elif ch == ')':
                depth -= 1
                if depth == 0: groups.append((start, j))
        ret = ft[:groups[0][0]].strip() if not ft[groups[0][0] + 1:groups[0][1]].strip().startswith('*') else None
        fpret = None
        if ret is None:
            # R1c: function returning a pointer to function, `RET (*(PARAMS) [const])(FPARAMS)`: the C declarator is
            # `RET (*name(params))(FPARAMS)`; anything more complex has no rule
            mfp = re.match(r'^\*\s*\((.*)\)\s*(const)?$', ft[groups[0][0] + 1:groups[0][1]].strip(), re.S)
            if not mfp or len(groups) != 2 or ft[groups[1][1] + 1:].strip():
                raise Unsupported('complex function type ' + ft)
            fpret = (ft[:groups[0][0]].strip(), ft[groups[1][0]:groups[1][1] + 1])
            ret = fpret[0] + ' (*)' + fpret[1]
        ps = []
        ret_slot = None; ret_class = None; ret_ref = ret.endswith('&')
        k = f['kind']
        if k == 'CXXConstructorDecl':
            rett = 'struct %s *' % f['_cls']
        elif k == 'CXXDestructorDecl':
            rett = 'void'
        else:
            rc = self.class_of(ret)
            if not rc and ret in self.tdnames:
                # R11b: return type named through a typedef of a record (`MockValue_c f()`): the call sites see the desugared
                # record type and pass the out-parameter, so the prototype must take it too
                for td in self.tu.typedefs:
                    if td['name'] == ret: rc = self.class_of(td['type']); break
            if rc and not ret.rstrip().endswith(('*', '&')):
                ret_slot = 'verif_ret'; ret_class = rc
                rett = 'struct %s *' % rc
                ps.append('struct %s *verif_ret' % rc)
            else:
                rett = self.ctype(ret)
        if not is_static_method(self.tu, f):
            const = 'const ' if re.search(r'\)\s*const', ft) else ''
            ps.append('%sstruct %s *self' % (const, f['_cls']))
        pv = params_of(f)
        pts = split_params(ft)
        variadic = pts and pts[-1] == '...'
        for i, p in enumerate(pv):
            nm = p.get('name') or '_p%d' % i
            t = p['type']
            if self.class_of(t) and not t['qualType'].rstrip().endswith(('*', '&')):
                ps.append('struct %s *%s' % (self.class_of(t), nm))
            else:
                ps.append(self.decl(t, nm))
        if variadic: ps.append('...')
        st = 'static ' if (k == 'FunctionDecl' and f.get('storageClass') == 'static') else ''
        proto = '%s%s(%s)' % (st, self._declarator(rett, cname) if '(*' in rett else rett + ' ' + cname, ', '.join(ps) or 'void')
        if fpret:
            mr = re.match(r'^(.*?)\(\*\)\s*(\(.*\))$', rett)
            if not mr: raise Unsupported('complex function type ' + ft)
            proto = '%s%s(*%s(%s))%s' % (st, mr.group(1), cname, ', '.join(ps) or 'void', mr.group(2))
        f['_ret_ref'] = ret_ref
        return proto, ret_slot, ret_class

    def all_functions(self):
        if self.cname2decl is None:
            self.cname2decl = {}
            for qn, fs in self.tu.funcs.items():
                for f in fs:
                    if not self.tu.in_repo(f): continue
                    try:
                        cn = self.namer.cname(f)
                    except Exception:
                        continue
                    cur = self.cname2decl.get(cn)
                    isdef = any(c.get('kind') in ('CompoundStmt', 'CXXTryStmt') for c in f.get('inner', []))
                    if cur is None or isdef: self.cname2decl[cn] = f
        return self.cname2decl

    # ---- records
    def _fields(self, rec, em):
        out = []
        dd = rec.get('definitionData', {})
        bases = rec.get('bases', [])
        if len(bases) > 1: raise Unsupported('multiple inheritance in ' + rec['name'])
        has_vptr = False
        if bases:
            bq = self.class_of(bases[0]['type'])
            if not bq: raise Unsupported('base class ' + bases[0]['type']['qualType'])
            bf, has_vptr = self._fields(self.tu.records[bq], em)
            out += bf
        if dd.get('isPolymorphic') and not has_vptr:
            out.insert(0, 'void *vptr_;'); has_vptr = True
        anon = None
        for c in rec.get('inner', []):
            k = c.get('kind')
            if k in ('CXXRecordDecl', 'RecordDecl') and not c.get('name') and c.get('completeDefinition'):
                anon = c
            elif k == 'FieldDecl':
                t = c['type']; q = t['qualType']
                if '(anonymous' in q or '(unnamed' in q:
                    if anon is None: raise Unsupported('anonymous member without record')
                    sub, _ = self._fields(anon, em)
                    out.append('%s { %s } %s;' % (anon.get('tagUsed', 'struct'), ' '.join(sub), c.get('name', '')))
                    continue
                if c.get('isBitfield'): raise Unsupported('bitfield')
                if q.rstrip().endswith('&'):
                    out.append(self.decl(t, c['name']) + ';')
                else:
                    out.append(self.decl(t, c['name']) + ';')
        return out, has_vptr

    def _deps(self, rec):
        deps = set()
        for b in rec.get('bases', []):
            bq = self.class_of(b['type'])
            if bq: deps.add(bq)
        def scan(r):
            for c in r.get('inner', []):
                if c.get('kind') == 'FieldDecl':
                    q = c['type']['qualType']
                    cq = self.class_of(c['type'])
                    if cq and '*' not in q and '&' not in q: deps.add(cq)
                elif c.get('kind') in ('CXXRecordDecl', 'RecordDecl') and not c.get('name'):
                    scan(c)
        scan(rec)
        return deps

    def emit_types(self):
        """all enums, typedefs and records of the TU that can be expressed; the rest is skipped and
        any use of a skipped type aborts the extraction of the using function"""
        out = ['/* ---- types emitted from the AST (R7) ---- */']
        skipped = {}
        for r in sorted(self.recnames | self.tu.recdecls):
            tag = self.tu.records[r].get('tagUsed', 'struct') if r in self.tu.records else 'struct'
            tag = 'union' if tag == 'union' else 'struct'
            out.append('typedef %s %s %s;' % (tag, r, r))
        # C style `typedef enum { ... } Name;`: the typedef gives the anonymous enum its name
        anon_named = {}
        def enum_ids(n):
            r = []
            if n.get('kind') == 'EnumType' and n.get('decl', {}).get('id'): r.append(n['decl']['id'])
            if n.get('ownedTagDecl', {}).get('id'): r.append(n['ownedTagDecl']['id'])
            for c in n.get('inner', []): r += enum_ids(c)
            return r
        anon = set(e['id'] for e in self.tu.enums if not e.get('name'))
        for t in self.tu.typedefs:
            for i in enum_ids(t):
                if i in anon and i not in anon_named: anon_named[i] = t['name']
        skip_typedefs = set(anon_named.values())
        for e in self.tu.enums:
            if not e.get('name') and e['id'] in anon_named:
                nm = anon_named[e['id']]
                out.append('typedef enum %s { %s } %s;' % (nm, ', '.join(self._enum_items(e)), nm))
            elif not e.get('name'):
                items = self._enum_items(e)
                out.append('enum { %s };' % ', '.join(items))
            else:
                out.append('typedef enum %s { %s } %s;' % (self._enum_cname(e), ', '.join(self._enum_items(e)), self._enum_cname(e)))
        for t in self.tu.typedefs:
            if t['name'] in skip_typedefs: continue
            try:
                out.append('typedef ' + self.decl(t['type'], t['name']) + ';')
            except Unsupported as ex:
                skipped[t['name']] = str(ex); self.known.discard(t['name'])
        done = set(); order = []
        def visit(r, stack=()):
            if r in done: return
            if r in stack: raise Unsupported('recursive by-value record ' + r)
            for d in sorted(self._deps(self.tu.records[r])):
                if d in self.tu.records: visit(d, stack + (r,))
            done.add(r); order.append(r)
        for r in sorted(self.recnames): visit(r)
        self.layout = {}
        for r in order:
            rec = self.tu.records[r]
            try:
                fs, _ = self._fields(rec, None)
            except Unsupported as ex:
                skipped[r] = str(ex); continue
            tag = 'union' if rec.get('tagUsed') == 'union' else 'struct'
            if not fs: fs = ['char verif_empty_;']
            out.append('%s %s { %s };' % (tag, r, ' '.join(fs)))
            self.layout[r] = fs
        self.skipped = skipped
        return '\n'.join(out) + '\n'

    def _enum_items(self, e):
        items = []
        self.enum_values = getattr(self, 'enum_values', [])
        for c in e.get('inner', []):
            if c.get('kind') != 'EnumConstantDecl': continue
            v = None
            def find(n):
                if n.get('kind') == 'ConstantExpr' and 'value' in n: return n['value']
                for k in n.get('inner', []):
                    r = find(k)
                    if r is not None: return r
                return None
            init = [k for k in c.get('inner', []) if k.get('kind') != 'FullComment']
            if init:
                v = find(c)
                if v is None: raise Unsupported('enumerator %s has an initialiser without a constant value' % c['name'])
            items.append(c['name'] + (' = ' + v if v is not None else ''))
        return items

    def layout_items(self):
        """(C expression, C++ expression) pairs whose values must agree between the emitted C types and
        the real headers (R7): sizeof / offsetof of every emitted record, value of every enumerator"""
        items = []
        for r, fs in sorted(self.layout.items()):
            cxx = r.replace('__', '::')
            tag = 'union' if self.tu.records[r].get('tagUsed') == 'union' else 'struct'
            items.append(('sizeof(%s %s)' % (tag, r), 'sizeof(%s)' % cxx))
            for f in fs:
                if '{' in f: continue
                m = re.search(r'(\w+)\s*(\[\d*\])*\s*;$', f) or re.search(r'\(\*\s*(\w+)\)', f)
                m2 = re.search(r'\(\*\s*(\w+)\)', f)
                nm = (m2 or m).group(1)
                if nm in ('vptr_', 'verif_empty_'): continue
                items.append(('offsetof(%s %s, %s)' % (tag, r, nm), 'offsetof(%s, %s)' % (cxx, nm)))
        for e in self.tu.enums:
            cls = e.get('_cls')
            for c in e.get('inner', []):
                if c.get('kind') != 'EnumConstantDecl': continue
                items.append(('(long)%s' % c['name'], '(long)%s%s' % ((cls.replace('__', '::') + '::') if cls else '', c['name'])))
        return items

    def emit_global(self, name, em_factory):
        """definition text of a global variable (R14) or seam prototype (R15)"""
        vs = self.globals.get(name)
        if not vs: raise Unsupported('global ' + name)
        v = None
        for cand in vs:
            if [c for c in cand.get('inner', []) if c.get('kind') not in ('FullComment',)]: v = cand
        v = v or vs[-1]
        t = v['type']; q = t['qualType']
        ct = self.ctype(t)
        m = re.match(r'^(.*?)\(\*(const)?\)\s*\((.*)\)$', ct)
        if m and (name.startswith('PlatformSpecific') or name.startswith('GetPlatformSpecific')):
            return '%s %s(%s); /* R15 seam */' % (m.group(1).strip(), name, m.group(3) or 'void'), True
        init = [c for c in v.get('inner', []) if c.get('kind') not in ('FullComment',)]
        txt = self.decl(t, name)
        isconst = bool(re.match(r'^\s*const\b', q)) or q.rstrip().endswith('const') or 'const [' in q or re.search(r'\bconst\b[^*]*$', q) is not None
        if init and isconst and not (self.class_of(t) and '*' not in q):
            em = em_factory()
            try:
                txt += ' = ' + em.e(init[0])
            except Unsupported:
                pass
        elif init and '-DVERIF_TABLE_INITS' in getattr(self.tu, 'cmd', []) and init[0].get('kind') == 'InitListExpr':
            # R14b (opt-in per proof, @define VERIF_TABLE_INITS): a non-const table whose initialiser lists nothing but functions
            # (C function tables) is emitted WITH its initialiser, preceded by the prototypes of those functions; the proof
            # switches --nondet-static off to see the initial contents (claim about the table as linked, not after writes)
            fns = []
            def fref(x):
                while x.get('kind') in ('ImplicitCastExpr', 'ParenExpr', 'CStyleCastExpr') and x.get('inner'): x = x['inner'][0]
                d = x.get('referencedDecl') if x.get('kind') == 'DeclRefExpr' else None
                return self.tu.byid.get(d['id'], d) if d and d.get('kind') == 'FunctionDecl' else None
            for c in init[0].get('inner', []):
                d = fref(c)
                if d is None: fns = None; break
                fns.append(d)
            if fns:
                em = em_factory()
                pre = ''.join(self.prototype(d, self.namer.cname(d))[0] + ';\n' for d in fns)
                txt = pre + txt + ' = ' + em.e(init[0])
        return txt + ';', False


# ----------------------------------------------------------------------------------------------
C_PRELUDE = '''#include <stddef.h>
#include <stdint.h>
#include <stdarg.h>
#include <stdbool.h>
#include <sys/types.h>
#include <setjmp.h>
#include <stdio.h>
#include <stdlib.h>
#include <string.h>
#include <time.h>
#include <sys/time.h>
#include <pthread.h>
#include <unistd.h>
#include <sys/wait.h>
#include <signal.h>
#include <errno.h>
#include <math.h>
void *VERIF_operator_new(size_t);
void VERIF_operator_delete(void *);
void VERIF_operator_delete_array(void *);
void VERIF_throw(const char *);
/* R13b (opt-in VERIF_EXCEPTIONS): the exception in flight, 0 = none */
#define VERIF_EXC_CppUTestFailedException 1
#define VERIF_EXC_std 2
#define VERIF_EXC_foreign 3
struct verif_std_exception { int verif_dummy; };
struct verif_std_nothrow_t { int verif_dummy; };
int verif_exc;
'''

class Unit:
    """everything extracted from one TU for one set of requested functions"""

    def __init__(self, tu):
        self.tu = tu
        self.namer = Namer(tu)
        self.prelude = Prelude(tu, self.namer)
        self.types = self.prelude.emit_types()
        self.fn = self.prelude.all_functions()
        self.emitted = {}

    def emit(self, cname):
        if cname in self.emitted: return self.emitted[cname]
        f = self.fn.get(cname)
        if f is None: raise Unsupported('no function %s in %s' % (cname, self.tu.src))
        if not any(c.get('kind') in ('CompoundStmt', 'CXXTryStmt') for c in f.get('inner', [])):
            raise Unsupported('%s has no definition in %s' % (cname, self.tu.src))
        r = emit_function(self.tu, self.namer, self.prelude, f)
        self.emitted[cname] = r
        return r

    def proto(self, cname):
        f = self.fn.get(cname)
        if f is None: return None
        return self.prelude.prototype(f, cname)[0]

    def global_def(self, name):
        return self.prelude.emit_global(name, lambda: Emitter(self.tu, self.namer, self.prelude))
