#!/usr/bin/env python3
import json,sys
js=json.load(open(sys.argv[1]))
for el in js:
    if 'result' in el:
        for r in el['result']:
            if r['status']!='SUCCESS': print(r['status'],r['property'],'|',r['description'][:170],'| line',r.get('sourceLocation',{}).get('line'))
    if el.get('messageType') in('WARNING','ERROR'): print(el['messageType'], el['messageText'][:300])
