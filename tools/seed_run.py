#!/usr/bin/env python3
"""run the registered check of each seeded change against a scratch worktree that carries the change
usage: seed_run.py [seed-name ...] [--tier quick|thorough] [--in-repo]
  default: a temporary git worktree of /repo gets the patch and the check runs with VERIF_REPO=<worktree>
  --in-repo: apply the patch to /repo itself (git apply), run, and undo (git checkout -- .) - only when nothing else uses /repo"""
import os, sys, json, subprocess, tempfile, shutil, re
HERE = os.path.dirname(os.path.dirname(os.path.abspath(__file__)))
def main():
    args = [a for a in sys.argv[1:] if not a.startswith('--')]
    tier = 'quick'
    if '--tier' in sys.argv: tier = sys.argv[sys.argv.index('--tier') + 1]; args = [a for a in args if a != tier]
    inrepo = '--in-repo' in sys.argv
    benign = '--benign' in sys.argv
    base = 'benign' if benign else 'seeded'
    names = args or sorted(n for n in os.listdir(os.path.join(HERE, base)) if os.path.isdir(os.path.join(HERE, base, n)))
    rc_all = 0
    for n in names:
        d = os.path.join(HERE, base, n)
        meta = json.load(open(os.path.join(d, 'meta.json')))
        pid = meta['property']
        if not os.path.exists(os.path.join(HERE, 'contracts', pid + '.spec')):
            print('%-40s %s: no check yet' % (n, pid)); continue
        env = dict(os.environ)
        if inrepo:
            subprocess.run(['git', '-C', '/repo', 'apply', os.path.join(d, 'patch.diff')], check=True)
            wt = '/repo'
        else:
            wt = tempfile.mkdtemp(prefix='seedwt.', dir='/tmp'); os.rmdir(wt)
            subprocess.run(['git', '-C', '/repo', 'worktree', 'add', '-q', '--detach', wt, 'HEAD'], check=True)
            subprocess.run(['git', '-C', wt, 'apply', os.path.join(d, 'patch.diff')], check=True)
            env['VERIF_REPO'] = wt
        try:
            p = subprocess.run([os.path.join(HERE, 'check'), pid, '--no-evidence', '--tier', tier], capture_output=True, text=True, env=env, cwd=HERE)
        finally:
            if inrepo: subprocess.run(['git', '-C', '/repo', 'checkout', '--', '.'], check=True)
            else: subprocess.run(['git', '-C', '/repo', 'worktree', 'remove', '--force', wt])
        viol = [l for l in p.stdout.splitlines() if l.startswith('VIOLATION') or l.startswith('  obligation') or l.startswith('UNDECIDED')]
        res = {'exit': p.returncode, 'tier': tier, 'lines': viol[:12]}
        json.dump(res, open(os.path.join(d, 'check_result.json'), 'w'), indent=1)
        status = ({0: 'QUIET (as it must be)', 1: 'FALSE ALARM', 2: 'UNDECIDED'} if benign else {1: 'CAUGHT', 0: 'MISSED', 2: 'UNDECIDED'}).get(p.returncode, 'rc=%s' % p.returncode)
        if p.returncode == 1 and not any(l.startswith('VIOLATION') for l in viol): status = 'CHECK CRASHED (exit 1 without a VIOLATION line): ' + p.stderr[-300:].replace('\n', ' | ')
        print('%-40s %s: %s %s' % (n, pid, status, (viol[1].strip()[:150] if len(viol) > 1 else (viol[0][:150] if viol else ''))))
        if p.returncode != (0 if benign else 1): rc_all = 1
    return rc_all
if __name__ == '__main__':
    sys.exit(main())
