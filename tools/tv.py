#!/usr/bin/env python3
"""Translation validation by differential execution (DESIGN.md section 2.1, guard 2).

For (translation unit, C function name) pairs the C text the emitter (cxx2c.py) produces is compiled
natively with gcc and run side by side with the real compiled C++ function (from /repo's current
working tree) on boundary and pseudo-random inputs.  Any disagreement means the *emitter* is wrong
(exit 2 upstream), never a property verdict.

API
    import verif, tv
    s = verif.Session()
    res = tv.validate(s, [('src/CppUTest/SimpleString.cpp', 'SimpleString_AtoI'), ...], n_random=300, seed=0)
    res['programs'], res['inputs_run'], res['disagreements'], res['skipped'], res['samples'], res['wall_s']
    tv.selftest(s)          # corrupts the emitted C and checks that validate() reports it

CLI
    python3 tools/tv.py <tu_rel> [name-substring] [--n N] [--seed S] [-v] [--keep]
    python3 tools/tv.py --selftest
    exit 0 = no disagreement, 2 = disagreement (extractor wrong) or self-test failed

How it works (one executable per translation unit)
  * C side: C_PRELUDE, `#define CN tv_CN` for every emitted function / constant global / platform seam,
    the unit's types, libc forwarders for the platform seams, then the emitted text of the requested
    functions and (transitively) of every callee the emitter can extract from the same unit.
    gcc -std=gnu11 -O0 -w -fsanitize=address,undefined.
  * C++ side: a generated driver `#include`s the real .cpp (so file-static and private functions are
    reachable), is compiled with g++ -std=c++11 -fno-access-control and the same sanitizers and linked
    with the remaining library sources of /repo's current tree (objects cached in the session directory).
  * Every input is run on both sides inside a forked child.  A crash / sanitizer report / hang on both
    sides is agreement-by-UB (counted, not compared); on one side only it is a disagreement.
  * Results: integers exactly, doubles bitwise (every NaN equals every NaN), `const char *` results as
    "argK+offset" when they point into an input string, else by content.
  * Eligible: free functions and static methods; const methods of SimpleString (receiver built from an input
    string); methods of default-constructible classes (receiver = a fresh default-constructed real object per
    side and call).  Parameters: integers, bool, char, enums (enumerator values only), double/float,
    `const char *` (valid NUL-terminated strings, exact-size heap objects), `const SimpleString &`.
    Result: a scalar or `const char *`.  Everything else is skipped with a reason, as is every function whose
    callee closure leaves the unit, touches mutable globals or uses a platform seam without a libc mapping.
  * Also checked per function: the emitted prototype has the type of the real function (kind "prototype").
  * TVD_VERBOSE=1 keeps the sanitizer reports of crashing children on stderr.
"""
import os, sys, re, json, time, glob, subprocess, threading, tempfile
from concurrent.futures import ThreadPoolExecutor

HERE = os.path.dirname(os.path.abspath(__file__))
sys.path.insert(0, HERE)
import verif, cxx2c

REPO = verif.REPO
SAN = ['-fsanitize=address,undefined', '-fno-sanitize-recover=undefined']
MAXP = 8
CAP_BOUNDARY = 512

INT_TYPES = {'bool', 'char', 'signed char', 'unsigned char', 'short', 'unsigned short', 'int', 'unsigned int',
             'long', 'unsigned long', 'long long', 'unsigned long long'}
FLT_TYPES = {'double', 'float'}
INT_TYPEDEFS = {'size_t', 'ssize_t', 'ptrdiff_t', 'uintptr_t', 'intptr_t', 'cpputest_longlong', 'cpputest_ulonglong',
                'uint8_t', 'uint16_t', 'uint32_t', 'uint64_t', 'int8_t', 'int16_t', 'int32_t', 'int64_t'}

# platform seams: function POINTER variables in the real library; the C side gets libc forwarders
SEAMS = {
    'PlatformSpecificMalloc': 'void *PlatformSpecificMalloc(size_t n) { return malloc(n); }',
    'PlatformSpecificFree': 'void PlatformSpecificFree(void *p) { free(p); }',
    'PlatformSpecificRealloc': 'void *PlatformSpecificRealloc(void *p, size_t n) { return realloc(p, n); }',
    'PlatformSpecificMemCpy': 'void *PlatformSpecificMemCpy(void *a, const void *b, size_t n) { return memcpy(a, b, n); }',
    'PlatformSpecificMemset': 'void *PlatformSpecificMemset(void *a, int c, size_t n) { return memset(a, c, n); }',
    'PlatformSpecificIsNan': 'int PlatformSpecificIsNan(double d) { return isnan(d) != 0; }',
    'PlatformSpecificIsInf': 'int PlatformSpecificIsInf(double d) { return isinf(d) != 0; }',
    'PlatformSpecificFabs': 'double PlatformSpecificFabs(double d) { return fabs(d); }',
    'PlatformSpecificVSNprintf': 'int PlatformSpecificVSNprintf(char *s, size_t n, const char *f, va_list a) { return vsnprintf(s, n, f, a); }',
    'PlatformSpecificRand': 'int PlatformSpecificRand(void) { return rand(); }',
    'PlatformSpecificSrand': 'void PlatformSpecificSrand(unsigned int s) { srand(s); }',
}
# callees that are not functions of /repo and that the C prelude's headers declare
LIBC_OK = {'memcpy', 'memset', 'memcmp', 'strlen', 'strcmp', 'strncmp', 'fabs', 'isnan', 'isinf', 'abs', 'labs'}


class Ineligible(Exception):
    pass


def log(*a):
    print(*a, file=sys.stderr, flush=True)


# ------------------------------------------------------------------------------------------------
# eligibility

def _has_body(f):
    return any(c.get('kind') in ('CompoundStmt', 'CXXTryStmt') for c in f.get('inner', []))


def _strip_const(q):
    """drop the top-level const only (a leading const of a pointer/reference type qualifies the pointee)"""
    q = q.strip()
    if '*' not in q and '&' not in q: q = re.sub(r'^const\s+', '', q)
    q = re.sub(r'\s*\bconst\s*$', '', q)
    return re.sub(r'\s+', ' ', q).strip()


def _enum_of(u, q):
    name = re.sub(r'^enum\s+', '', _strip_const(q)).replace('::', '__')
    for e in u.tu.enums:
        if e.get('name') and u.prelude._enum_cname(e) == name: return e
    return None


def _enumerators(e):
    pre = (e['_cls'].replace('__', '::') + '::') if e.get('_cls') else ''
    return [pre + c['name'] for c in e.get('inner', []) if c.get('kind') == 'EnumConstantDecl']


def _classify(t, u=None):
    """AST type dict -> (kind, C++ type to cast to) or (None, why).  kind: int | flt | str | sstr | enum"""
    q = t.get('qualType', '')
    if u is not None and '*' not in q and '&' not in q:
        e = _enum_of(u, q)
        if e is not None and _enumerators(e): return 'enum', re.sub(r'^enum\s+', '', _strip_const(q))
    d = t.get('desugaredQualType', q)
    qs, ds = _strip_const(q), _strip_const(d)
    if ds in INT_TYPES or qs in INT_TYPES or qs in INT_TYPEDEFS: return 'int', qs
    if ds in FLT_TYPES or qs in FLT_TYPES: return 'flt', qs
    if re.sub(r'\s+', '', ds) in ('constchar*',) or re.sub(r'\s+', '', qs) in ('constchar*',): return 'str', 'const char *'
    if re.sub(r'\s+', '', q) == 'constSimpleString&': return 'sstr', 'SimpleString'
    return None, q


def _fn_type_parts(ft):
    """'char (size_t) const' -> ('char', '(size_t)', ' const')"""
    depth = 0; start = None; groups = []
    for j, ch in enumerate(ft):
        if ch == '(':
            if depth == 0: start = j
            depth += 1
        elif ch == ')':
            depth -= 1
            if depth == 0: groups.append((start, j))
    if not groups: raise Ineligible('function type %s not understood' % ft)
    s, e = groups[0]
    if ft[s + 1:e].strip().startswith('*'): raise Ineligible('complex function type ' + ft)
    return ft[:s].strip(), ft[s:e + 1], ft[e + 1:]


class Candidate:
    """one eligible function: everything the generators need"""
    pass


def analyse(u, tu_rel, cname):
    f = u.fn.get(cname)
    if f is None: raise Ineligible('no function %s in %s' % (cname, tu_rel))
    if not _has_body(f): raise Ineligible('declared only (no definition in this translation unit)')
    if f['kind'] in ('CXXConstructorDecl', 'CXXDestructorDecl', 'CXXConversionDecl'): raise Ineligible('constructor/destructor/conversion')
    try:
        proto = u.proto(cname)
    except cxx2c.Unsupported as ex:
        raise Ineligible('prototype not expressible: %s' % ex)
    if 'verif_ret' in proto: raise Ineligible('returns a class by value (out-parameter)')
    ft = f['type']['qualType']
    ret, plist, trail = _fn_type_parts(ft)
    if '...' in plist: raise Ineligible('variadic')
    if 'noexcept' in trail or 'throw' in trail: trail = re.sub(r'\s*(noexcept(\([^)]*\))?|throw\s*\([^)]*\))', '', trail)
    static = cxx2c.is_static_method(u.tu, f)
    c = Candidate()
    c.cname = cname; c.f = f; c.proto = proto; c.static = static; c.tu_rel = tu_rel
    c.cls = (f.get('_cls') or '').replace('__', '::')
    c.recv = None
    if not static:
        if f.get('_cls') == 'SimpleString':
            # receiver = a SimpleString built from an input string (const methods only: both sides see the same value)
            if not re.search(r'\bconst\b', trail): raise Ineligible('non-const SimpleString method (mutates the receiver)')
            c.recv = 'sstr'
        else:
            # receiver = a default-constructed object of the real class, a fresh one per side and call; the emitted C reads
            # it through the emitted struct (same layout: R7 guard)
            rec = u.tu.records.get(f.get('_cls'))
            dd = (rec or {}).get('definitionData', {})
            if rec is None or dd.get('isAbstract') or not dd.get('defaultCtor', {}).get('exists'):
                raise Ineligible('non-static method of %s (no default-constructible receiver)' % f.get('_cls'))
            c.recv = 'obj'
    rk, rt = _classify({'qualType': ret}, u)
    if ret == 'void': raise Ineligible('returns void (nothing to compare)')
    if rk not in ('int', 'flt', 'str', 'enum'): raise Ineligible('return type %s' % ret)
    c.ret_kind = rk
    c.params = []
    for i, p in enumerate(cxx2c.params_of(f)):
        k, t = _classify(p['type'], u)
        if k is None: raise Ineligible('parameter %s of type %s' % (p.get('name') or i, t))
        isbool = _strip_const(p['type'].get('desugaredQualType', p['type']['qualType'])) == 'bool'
        c.params.append(dict(kind=k, ctype=t, name=p.get('name') or '_p%d' % i, isbool=isbool, values=_enumerators(_enum_of(u, t)) if k == 'enum' else None,
                             isf32=_strip_const(p['type'].get('desugaredQualType', p['type']['qualType'])) == 'float'))
    if len(c.params) + (1 if c.recv == 'sstr' else 0) > MAXP: raise Ineligible('more than %d parameters' % MAXP)
    # pointer to the real function (resolves overloads by the AST's own type)
    name = f.get('name', '')
    c.real_ref = '&' + (c.cls + '::' if c.cls else '') + name
    c.nested = {}
    for w in set(re.findall(r'\b\w+__\w+\b', proto)):
        if w in u.tu.recdecls or w in u.prelude.enumnames: c.nested[w] = w.replace('__', '::')
    c.real_decl = lambda var: ('%s (%s::*%s)%s%s' % (ret, c.cls, var, plist, trail)) if not static else ('%s (*%s)%s' % (ret, var, plist))
    return c


def closure(u, cname):
    """emitted text of cname and of every callee extractable from the same unit, callees first.
    returns (order [(cname, record)], seams set, globals {name: text})"""
    order = []; seen = set(); seams = set(); globs = {}
    def visit(cn, top):
        if cn in seen: return
        seen.add(cn)
        try:
            r = u.emit(cn)
        except cxx2c.Unsupported as ex:
            raise Ineligible(('not extractable: %s' % ex) if top else ('callee %s not extractable: %s' % (cn, ex)))
        except Exception as ex:                      # emitter crash: a finding about the emitter, but not ours to judge here
            raise Ineligible('emitter raised %s on %s: %s' % (type(ex).__name__, cn, ex))
        local_seams = set()
        for g in sorted(r['globals']):
            try:
                txt, is_seam = u.global_def(g)
            except cxx2c.Unsupported as ex:
                raise Ineligible('global %s: %s' % (g, ex))
            if is_seam:
                if g not in SEAMS: raise Ineligible('platform seam %s has no libc mapping' % g)
                seams.add(g); local_seams.add(g)
            elif '=' in txt and re.search(r'\bconst\b', txt):
                globs[g] = txt
            else:
                raise Ineligible('%s state in global %s' % ('reads/writes' if cn == cname else 'callee %s uses' % cn, g))
        for c in sorted(r['calls']):
            if c in local_seams or c.startswith('__builtin_'): continue
            if c in SEAMS and c in u.prelude.globals: seams.add(c); continue
            if c in ('VERIF_operator_new', 'VERIF_throw'): raise Ineligible('uses %s (new / throw)' % c)
            g = u.fn.get(c)
            if g is None:
                if c in LIBC_OK: continue
                if c in u.prelude.globals: raise Ineligible('calls through function pointer %s' % c)
                raise Ineligible('callee %s is not a function of the unit' % c)
            if not _has_body(g): raise Ineligible('callee %s is declared only (other translation unit)' % c)
            visit(c, False)
        order.append((cn, r))
    visit(cname, True)
    return order, seams, globs


def strip_markers(text):
    text = re.sub(r'[ \t]*/\*@(BEFORELOOP|AFTERLOOP|BODYBEGIN|BODYEND) \d+@\*/[ \t]*\n', '', text)
    return re.sub(r'/\*@[A-Z]+( \d+)?@\*/', '', text)


# ------------------------------------------------------------------------------------------------
# C side

def c_side_text(u, cands, closures, corrupt=None):
    names = []; texts = {}; seams = set(); globs = {}
    for c in cands:
        order, sm, gl = closures[c.cname]
        seams |= sm; globs.update(gl)
        for cn, r in order:
            if cn not in texts:
                t = strip_markers(r['text'])
                if corrupt: t = corrupt(cn, t)
                t = re.sub(r'^\s*static\s+', '', t, count=1)
                texts[cn] = (re.sub(r'^\s*static\s+', '', r['proto']), t); names.append(cn)
    out = ['/* generated by tv.py: emitted C under test, every name prefixed tv_ */\n', cxx2c.C_PRELUDE]
    for n in names + sorted(globs) + sorted(seams):
        out.append('#define %s tv_%s\n' % (n, n))
    out.append(u.types)
    out.append('/* ---- platform seams -> libc ---- */\n' + '\n'.join(SEAMS[s] for s in sorted(seams)) + '\n')
    out.append('/* ---- constant globals (R14) ---- */\n' + '\n'.join(globs[g] for g in sorted(globs)) + '\n')
    out.append('/* ---- prototypes ---- */\n' + '\n'.join(texts[n][0] + ';' for n in names) + '\n')
    for n in names:
        out.append(texts[n][1] + '\n')
    return ''.join(out)


# ------------------------------------------------------------------------------------------------
# C++ driver

DRIVER_HEAD = r'''/* generated by tv.py: differential driver */
#include <stdio.h>
#include <stdlib.h>
#include <string.h>
#include <stdint.h>
#include <math.h>
#include <float.h>
#include <limits.h>
#include <unistd.h>
#include <signal.h>
#include <fcntl.h>
#include <errno.h>
#include <sys/types.h>
#include <sys/wait.h>
#include "@TU@"
#undef new
#undef malloc
#undef free
#undef realloc
#undef calloc
#undef strdup
#undef strndup

#define TVD_MAXP 8
#define TVD_REPR 400
#define TVD_MAXB 640
#define TVD_MAXIN 40000

struct tvd_pd { int kind; int bits; int sgn; int f32; const long long *vals; int nvals; };   /* kind 0 int, 1 float, 2 string; vals: the only admissible values (enumerators) */
struct tvd_val { unsigned long long u; double d; char *s; size_t n; };
struct tvd_in { tvd_val a[TVD_MAXP]; };
struct tvd_fn { const char *name; int np; tvd_pd p[TVD_MAXP]; void (*cxx)(const tvd_val *, char *); void (*c)(const tvd_val *, char *); int proto_same; };
struct tvd_bset { int n; tvd_val v[TVD_MAXB]; };
struct tvd_rec { int j; int stage; char r[TVD_REPR]; };

template<class A, class B> struct tvd_same { enum { v = 0 }; };
template<class A> struct tvd_same<A, A> { enum { v = 1 }; };

/* ---- result representation ---- */
static void tvd_esc(char *out, size_t cap, const char *s, size_t maxbytes)
{
    size_t o = 0, i = 0;
    out[o++] = '"';
    for (; s[i] && i < maxbytes && o + 8 < cap; i++) {
        unsigned char ch = (unsigned char)s[i];
        if (ch >= 32 && ch < 127 && ch != '"' && ch != '\\') out[o++] = (char)ch;
        else o += (size_t)snprintf(out + o, cap - o, "\\x%02x", ch);
    }
    out[o++] = '"';
    if (s[i]) o += (size_t)snprintf(out + o, cap - o, "...(len %lu)", (unsigned long)strlen(s));
    out[o] = 0;
}
static void tvd_repr_ll(char *out, long long v) { snprintf(out, TVD_REPR, "%lld", v); }
static void tvd_repr_ull(char *out, unsigned long long v) { snprintf(out, TVD_REPR, "%llu", v); }
static void tvd_repr(char *out, const tvd_val *, int, bool v) { tvd_repr_ll(out, v ? 1 : 0); }
static void tvd_repr(char *out, const tvd_val *, int, char v) { tvd_repr_ll(out, v); }
static void tvd_repr(char *out, const tvd_val *, int, signed char v) { tvd_repr_ll(out, v); }
static void tvd_repr(char *out, const tvd_val *, int, unsigned char v) { tvd_repr_ull(out, v); }
static void tvd_repr(char *out, const tvd_val *, int, short v) { tvd_repr_ll(out, v); }
static void tvd_repr(char *out, const tvd_val *, int, unsigned short v) { tvd_repr_ull(out, v); }
static void tvd_repr(char *out, const tvd_val *, int, int v) { tvd_repr_ll(out, v); }
static void tvd_repr(char *out, const tvd_val *, int, unsigned int v) { tvd_repr_ull(out, v); }
static void tvd_repr(char *out, const tvd_val *, int, long v) { tvd_repr_ll(out, v); }
static void tvd_repr(char *out, const tvd_val *, int, unsigned long v) { tvd_repr_ull(out, v); }
static void tvd_repr(char *out, const tvd_val *, int, long long v) { tvd_repr_ll(out, v); }
static void tvd_repr(char *out, const tvd_val *, int, unsigned long long v) { tvd_repr_ull(out, v); }
static void tvd_repr(char *out, const tvd_val *, int, double v)
{
    unsigned long long b; memcpy(&b, &v, sizeof b);
    if (v != v) snprintf(out, TVD_REPR, "nan"); else snprintf(out, TVD_REPR, "%.17g[0x%016llx]", v, b);
}
static void tvd_repr(char *out, const tvd_val *, int, float v)
{
    unsigned int b; memcpy(&b, &v, sizeof b);
    if (v != v) snprintf(out, TVD_REPR, "nan"); else snprintf(out, TVD_REPR, "%.9g[0x%08x]", (double)v, b);
}
static void tvd_repr(char *out, const tvd_val *a, int np, const char *v)
{
    if (!v) { snprintf(out, TVD_REPR, "NULL"); return; }
    for (int k = 0; k < np; k++)
        if (a[k].s && v >= a[k].s && v <= a[k].s + a[k].n) { snprintf(out, TVD_REPR, "arg%d+%ld", k, (long)(v - a[k].s)); return; }
    tvd_esc(out, TVD_REPR - 40, v, 64);
}

/* ---- pseudo-random numbers (splitmix64) ---- */
static unsigned long long tvd_rs;
static unsigned long long tvd_rnd(void)
{
    unsigned long long z = (tvd_rs += 0x9e3779b97f4a7c15ULL);
    z = (z ^ (z >> 30)) * 0xbf58476d1ce4e5b9ULL; z = (z ^ (z >> 27)) * 0x94d049bb133111ebULL; return z ^ (z >> 31);
}
static unsigned tvd_below(unsigned n) { return n ? (unsigned)(tvd_rnd() % n) : 0; }
static unsigned long long tvd_mask(int bits) { return bits >= 64 ? ~0ULL : ((1ULL << bits) - 1); }

static char *tvd_mkstr(const char *src, size_t n)
{   /* exact-size heap object: an over-read on either side trips the address sanitizer */
    char *p = (char *)malloc(n + 1); memcpy(p, src, n); p[n] = 0;
    for (size_t i = 0; i < n; i++) if (!p[i]) p[i] = 1;
    return p;
}
static void tvd_setstr(tvd_val *v, const char *src, size_t n) { v->u = 0; v->d = 0; v->s = tvd_mkstr(src, n); v->n = n; }

/* ---- boundary sets ---- */
static void tvd_addi(tvd_bset *b, const tvd_pd *p, unsigned long long u)
{
    u &= tvd_mask(p->bits);
    for (int i = 0; i < b->n; i++) if (b->v[i].u == u) return;
    if (b->n >= TVD_MAXB) return;
    b->v[b->n].u = u; b->v[b->n].d = 0; b->v[b->n].s = 0; b->v[b->n].n = 0; b->n++;
}
static void tvd_addd(tvd_bset *b, const tvd_pd *p, double d)
{
    if (p->f32) d = (double)(float)d;
    if (b->n >= TVD_MAXB) return;
    b->v[b->n].u = 0; b->v[b->n].d = d; b->v[b->n].s = 0; b->v[b->n].n = 0; b->n++;
}
static void tvd_adds(tvd_bset *b, const char *s) { if (b->n < TVD_MAXB) { tvd_setstr(&b->v[b->n], s, strlen(s)); b->n++; } }

static void tvd_bounds(const tvd_pd *p, int all_chars, tvd_bset *b)
{
    b->n = 0;
    if (p->kind == 0 && p->nvals) {
        for (int i = 0; i < p->nvals; i++) tvd_addi(b, p, (unsigned long long)p->vals[i]);
    } else if (p->kind == 0) {
        if (all_chars && p->bits == 8) { for (int i = 0; i < 256; i++) tvd_addi(b, p, (unsigned long long)i); return; }
        static const long long small[] = {0, 1, -1, 2, -2, 3, 7, 8, 9, 10, 11, 16, 32, 47, 48, 57, 58, 64, 65, 90, 91, 96, 97, 99, 100, 122, 123, 126, 127, 128, 255, 256, 1000, 65535, 65536};
        for (unsigned i = 0; i < sizeof small / sizeof small[0]; i++) tvd_addi(b, p, (unsigned long long)small[i]);
        tvd_addi(b, p, 1ULL << (p->bits - 1));              /* signed min */
        tvd_addi(b, p, (1ULL << (p->bits - 1)) - 1);        /* signed max */
        tvd_addi(b, p, (1ULL << (p->bits - 1)) + 1);
        tvd_addi(b, p, ~0ULL); tvd_addi(b, p, ~0ULL - 1);   /* unsigned max, -2 */
        for (int k = 1; k < p->bits; k++) {
            unsigned long long t = 1ULL << k;
            tvd_addi(b, p, t - 1); tvd_addi(b, p, t); tvd_addi(b, p, t + 1);
            if (p->sgn) { tvd_addi(b, p, 0 - t); tvd_addi(b, p, 0 - t - 1); tvd_addi(b, p, 0 - t + 1); }
        }
    } else if (p->kind == 1) {
        const double inf = HUGE_VAL; const double nan_ = inf - inf;
        const double fmax = p->f32 ? (double)FLT_MAX : DBL_MAX, fmin = p->f32 ? (double)FLT_MIN : DBL_MIN;
        const double den = p->f32 ? (double)FLT_MIN / 8388608.0 : 4.9406564584124654e-324, eps = p->f32 ? (double)FLT_EPSILON : DBL_EPSILON;
        const double v[] = {0.0, -0.0, 1.0, -1.0, inf, -inf, nan_, den, -den, fmin, fmax, -fmax, 0.5, 0.1, 1.0 + eps, 1.0 - eps / 2, 2.0, 3.0, 1e-9, 1e9, -2.5, 0.25, 1e30};
        for (unsigned i = 0; i < sizeof v / sizeof v[0]; i++) tvd_addd(b, p, v[i]);
    } else {
        static const char *const v[] = {"", "a", "abc", " 42", "-17x", "+5", "0", "-0", "007", "12", "2147483647", "2147483648", "-2147483648", "-2147483649",
            "4294967295", "4294967296", "99999999999999999999", "  \t\n\v\f\r12ab", "abd", "ab", "ABC", "aBc", "abcabc", "bca", "b", "A", "Z", "z", "\x80\xff", "a\x80", "a\x7f",
            "\x01\x02\x1f\x7f", "\t", "   ", "- 1", "--1", "+-1", "1 2", "0x10", "hello world", "Hello World", "abc\n", "\\\"'%s%d%n",
            "aaaaaaaaaaaaaaaaaaaaaaaaaaaaaaaaaaaaaaaa", "0123456789012345678901234567890123456789", "aaaaaaaaaaaaaaaaaaaaaaaaaaaaaaaaaaaaaaab",
            "\xff\xfe\xfd", "\xe2\x82\xac", "ab\x01", "9", "/", ":", "@", "[", "`", "{"};
        for (unsigned i = 0; i < sizeof v / sizeof v[0]; i++) tvd_adds(b, v[i]);
    }
}

/* ---- random values ---- */
static void tvd_random_string(tvd_val *out)
{
    char buf[48];
    unsigned len = tvd_below(2) ? tvd_below(9) : tvd_below(41);
    unsigned mode = tvd_below(5);
    static const char m1[] = "0123456789 +-\t\nxX9";
    for (unsigned i = 0; i < len; i++) {
        unsigned char ch;
        switch (mode) {
        case 0: ch = (unsigned char)('a' + tvd_below(2)); break;
        case 1: ch = (unsigned char)m1[tvd_below(sizeof m1 - 1)]; break;
        case 2: ch = (unsigned char)(32 + tvd_below(95)); break;
        case 3: ch = (unsigned char)(1 + tvd_below(255)); break;
        default: ch = (unsigned char)(tvd_below(2) ? 'A' + tvd_below(3) : 'a' + tvd_below(3)); break;
        }
        buf[i] = (char)ch;
    }
    if (mode == 1 && len > 2 && tvd_below(2)) { buf[0] = ' '; buf[1] = (char)(tvd_below(2) ? '-' : '+'); }
    tvd_setstr(out, buf, len);
}
static void tvd_derive_string(const tvd_val *from, tvd_val *out)
{
    char buf[64]; size_t n = from->n > 40 ? 40 : from->n; memcpy(buf, from->s, n);
    switch (tvd_below(8)) {
    case 0: break;                                                            /* equal */
    case 1: n = n ? tvd_below((unsigned)n + 1) : 0; break;                    /* prefix */
    case 2: if (n) { unsigned o = tvd_below((unsigned)n); memmove(buf, buf + o, n - o); n -= o; } break;      /* suffix */
    case 3: if (n) { unsigned o = tvd_below((unsigned)n); unsigned l = tvd_below((unsigned)(n - o) + 1); memmove(buf, buf + o, l); n = l; } break;  /* infix */
    case 4: if (n) buf[tvd_below((unsigned)n)] = (char)(1 + tvd_below(255)); break;                            /* one byte changed */
    case 5: if (n) { unsigned i = tvd_below((unsigned)n); buf[i] = (char)(buf[i] ^ 0x20); if (!buf[i]) buf[i] = ' '; } break;   /* case flipped */
    case 6: if (n < 40) buf[n++] = (char)(1 + tvd_below(255)); break;         /* one byte appended */
    default: for (size_t i = 0; i < n; i++) if (buf[i] >= 'a' && buf[i] <= 'z') buf[i] = (char)(buf[i] - 32); break;           /* upper-cased */
    }
    tvd_setstr(out, buf, n);
}
static void tvd_random_val(const tvd_pd *pds, const tvd_bset *bs, const tvd_in *in, int k, tvd_val *out)
{
    const tvd_pd *p = &pds[k]; unsigned r = tvd_below(100);
    out->u = 0; out->d = 0; out->s = 0; out->n = 0;
    int prev = -1; for (int i = k - 1; i >= 0; i--) if (pds[i].kind == p->kind) { prev = i; break; }
    if (p->kind == 0) {
        if (r < 25 || p->nvals) out->u = bs[k].v[tvd_below((unsigned)bs[k].n)].u;
        else if (r < 55) { unsigned long long s = tvd_below(46); out->u = (p->sgn && tvd_below(4) == 0) ? 0 - s : s; }
        else if (r < 75) { int bl = 1 + (int)tvd_below((unsigned)p->bits); out->u = tvd_rnd() & tvd_mask(bl); if (p->sgn && tvd_below(2)) out->u = 0 - out->u; }
        else out->u = tvd_rnd();
        out->u &= tvd_mask(p->bits);
    } else if (p->kind == 1) {
        double d;
        if (r < 25) d = bs[k].v[tvd_below((unsigned)bs[k].n)].d;
        else if (r < 50) d = ((int)tvd_below(33) - 16) / 4.0;
        else if (r < 70 && prev >= 0) {
            double q = in->a[prev].d;
            static const double dl[] = {0.0, 0.25, -0.25, 1e-12, -1e-12, 0.5, 1.0, -1.0};
            d = q + dl[tvd_below(8)]; if (tvd_below(6) == 0) d = q * (1.0 + DBL_EPSILON);
        }
        else if (r < 85) {
            if (p->f32) { unsigned int b = (unsigned int)tvd_rnd(); float f; memcpy(&f, &b, 4); d = (double)f; }
            else { unsigned long long b = tvd_rnd(); memcpy(&d, &b, 8); }
        }
        else d = ((double)(tvd_rnd() >> 11) / 9007199254740992.0) * 20.0 - 10.0;
        if (p->f32) d = (double)(float)d;
        out->d = d;
    } else {
        if (r < 15) { const tvd_val *b = &bs[k].v[tvd_below((unsigned)bs[k].n)]; tvd_setstr(out, b->s, b->n); }
        else if (r < 50 && prev >= 0) tvd_derive_string(&in->a[prev], out);
        else tvd_random_string(out);
    }
}

/* ---- JSON output ---- */
static void tvd_json_str(const char *s)
{
    putchar('"');
    for (; *s; s++) {
        unsigned char ch = (unsigned char)*s;
        if (ch >= 32 && ch < 127 && ch != '"' && ch != '\\') putchar(ch); else printf("\\u%04x", ch);
    }
    putchar('"');
}
static void tvd_json_inputs(const tvd_fn *f, const tvd_in *in)
{
    putchar('[');
    for (int k = 0; k < f->np; k++) {
        const tvd_pd *p = &f->p[k]; const tvd_val *v = &in->a[k];
        if (k) putchar(',');
        if (p->kind == 0) {
            if (p->sgn && p->bits < 64 && (v->u >> (p->bits - 1)) & 1) printf("%lld", (long long)(v->u | ~tvd_mask(p->bits)));
            else if (p->sgn) printf("%lld", (long long)v->u);
            else printf("%llu", v->u);
        } else if (p->kind == 1) {
            char b[64];
            if (v->d != v->d) snprintf(b, sizeof b, "nan"); else snprintf(b, sizeof b, "%.17g", v->d);
            tvd_json_str(b);
        } else tvd_json_str(v->s);
    }
    putchar(']');
}
static void tvd_emit(const char *t, const tvd_fn *f, const tvd_in *in, const char *cxx, const char *c)
{
    printf("{\"t\":\"%s\",\"fn\":\"%s\",\"inputs\":", t, f->name); tvd_json_inputs(f, in);
    printf(",\"cxx\":"); tvd_json_str(cxx); printf(",\"c\":"); tvd_json_str(c); printf("}\n");
}

/* ---- running ---- */
static int tvd_readn(int fd, void *buf, size_t n)
{
    size_t got = 0;
    while (got < n) { ssize_t r = read(fd, (char *)buf + got, n - got); if (r < 0 && errno == EINTR) continue; if (r <= 0) return 0; got += (size_t)r; }
    return 1;
}
static void tvd_writen(int fd, const void *buf, size_t n)
{
    size_t put = 0;
    while (put < n) { ssize_t r = write(fd, (const char *)buf + put, n - put); if (r < 0 && errno == EINTR) continue; if (r <= 0) _exit(99); put += (size_t)r; }
}
static void tvd_quiet(void)
{   /* children never write to the result stream; sanitizer reports are dropped unless TVD_VERBOSE is set */
    int fd = open("/dev/null", O_WRONLY);
    if (fd < 0) return;
    dup2(fd, 1); if (!getenv("TVD_VERBOSE")) dup2(fd, 2);
    close(fd);
}
static void tvd_status(char *out, int st)
{
    if (WIFSIGNALED(st)) snprintf(out, TVD_REPR, "CRASH(signal %d%s)", WTERMSIG(st), WTERMSIG(st) == SIGALRM ? ": timeout" : "");
    else snprintf(out, TVD_REPR, "CRASH(exit %d: sanitizer report)", WEXITSTATUS(st));
}
/* run one side alone on one input in a child; 1 = returned normally (result in out) */
static int tvd_probe(const tvd_fn *f, const tvd_in *in, int c_side, char *out)
{
    int pp[2]; if (pipe(pp)) return 0;
    fflush(stdout);
    pid_t pid = fork();
    if (pid == 0) {
        close(pp[0]); tvd_quiet(); alarm(5);
        tvd_rec rec; memset(&rec, 0, sizeof rec);
        if (c_side) f->c(in->a, rec.r); else f->cxx(in->a, rec.r);
        tvd_writen(pp[1], &rec, sizeof rec); _exit(0);
    }
    close(pp[1]);
    tvd_rec rec; int ok = tvd_readn(pp[0], &rec, sizeof rec); close(pp[0]);
    int st = 0; waitpid(pid, &st, 0);
    if (ok && WIFEXITED(st) && WEXITSTATUS(st) == 0) { memcpy(out, rec.r, TVD_REPR); return 1; }
    tvd_status(out, st); return 0;
}

static tvd_in *tvd_inputs; static int tvd_nin;
static void tvd_push(const tvd_in *in) { if (tvd_nin < TVD_MAXIN) tvd_inputs[tvd_nin++] = *in; }

static void tvd_run(const tvd_fn *f, unsigned long long seed, int fidx, int nrandom, int cap)
{
    static tvd_bset bs[TVD_MAXP];
    tvd_rs = seed * 0x100000001b3ULL + 0x1234567ULL;
    for (const char *q = f->name; *q; q++) tvd_rs = (tvd_rs ^ (unsigned char)*q) * 0x100000001b3ULL;
    (void)fidx;
    int all_chars = f->np == 1;
    for (int k = 0; k < f->np; k++) tvd_bounds(&f->p[k], all_chars, &bs[k]);
    tvd_nin = 0;
    /* boundary cross product, capped */
    double total = 1; for (int k = 0; k < f->np; k++) total *= bs[k].n;
    tvd_in in; memset(&in, 0, sizeof in);
    if (total <= cap) {
        int idx[TVD_MAXP] = {0};
        for (;;) {
            for (int k = 0; k < f->np; k++) in.a[k] = bs[k].v[idx[k]];
            tvd_push(&in);
            int k = 0; while (k < f->np && ++idx[k] == bs[k].n) idx[k++] = 0;
            if (k == f->np) break;
        }
    } else {
        int mx = 0; for (int k = 0; k < f->np; k++) if (bs[k].n > mx) mx = bs[k].n;
        for (int i = 0; i < mx && tvd_nin < cap / 4; i++) {               /* diagonal: equal strings, equal numbers */
            for (int k = 0; k < f->np; k++) in.a[k] = bs[k].v[i % bs[k].n];
            tvd_push(&in);
        }
        for (int k = 0; k < f->np && tvd_nin < cap / 2; k++)             /* one at a time, the others at a plain value */
            for (int i = 0; i < bs[k].n && tvd_nin < cap / 2; i++) {
                for (int j = 0; j < f->np; j++) in.a[j] = bs[j].v[f->p[j].kind == 2 ? 2 : (f->p[j].kind == 1 ? 2 : 1)];
                in.a[k] = bs[k].v[i]; tvd_push(&in);
            }
        while (tvd_nin < cap) {                                            /* random boundary combinations */
            for (int k = 0; k < f->np; k++) in.a[k] = bs[k].v[tvd_below((unsigned)bs[k].n)];
            tvd_push(&in);
        }
    }
    int nbound = tvd_nin;
    if (f->np == 0) nrandom = 0;                                           /* no inputs: one call */
    for (int i = 0; i < nrandom; i++) {
        for (int k = 0; k < f->np; k++) tvd_random_val(f->p, bs, &in, k, &in.a[k]);
        tvd_push(&in);
    }
    int n = tvd_nin, start = 0, compared = 0, ub = 0, dis = 0, harness = 0;
    char cxx_r[TVD_REPR], tmp[TVD_REPR];
    while (start < n) {
        int pp[2]; if (pipe(pp)) { perror("pipe"); exit(3); }
        fflush(stdout);
        pid_t pid = fork();
        if (pid < 0) { perror("fork"); exit(3); }
        if (pid == 0) {
            close(pp[0]); tvd_quiet();
            tvd_rec rec; memset(&rec, 0, sizeof rec);
            for (int j = start; j < n; j++) {
                rec.j = j; rec.stage = 0; rec.r[0] = 0; tvd_writen(pp[1], &rec, sizeof rec);
                alarm(5); f->cxx(tvd_inputs[j].a, rec.r);
                rec.stage = 1; tvd_writen(pp[1], &rec, sizeof rec);
                alarm(5); f->c(tvd_inputs[j].a, rec.r);
                rec.stage = 2; tvd_writen(pp[1], &rec, sizeof rec);
            }
            alarm(0); _exit(0);
        }
        close(pp[1]);
        tvd_rec rec; int last_j = -1, last_stage = -1;
        while (tvd_readn(pp[0], &rec, sizeof rec)) {
            last_j = rec.j; last_stage = rec.stage;
            if (rec.stage == 1) memcpy(cxx_r, rec.r, TVD_REPR);
            if (rec.stage == 2) {
                compared++;
                if (strcmp(cxx_r, rec.r) != 0) { if (dis++ < 25) tvd_emit("dis", f, &tvd_inputs[rec.j], cxx_r, rec.r); }
                else if (rec.j == 0 || rec.j == 3 || rec.j == nbound || rec.j == n - 1) tvd_emit("sample", f, &tvd_inputs[rec.j], cxx_r, rec.r);
            }
        }
        close(pp[0]);
        int st = 0; waitpid(pid, &st, 0);
        if (last_j < 0) { harness++; start++; continue; }
        if (last_stage == 0) {            /* the real C++ function did not return: does the emitted C return? */
            tvd_status(cxx_r, st);
            if (tvd_probe(f, &tvd_inputs[last_j], 1, tmp)) { compared++; if (dis++ < 25) tvd_emit("dis", f, &tvd_inputs[last_j], cxx_r, tmp); }
            else { if (ub++ < 3) tvd_emit("ub", f, &tvd_inputs[last_j], cxx_r, tmp); }
        } else if (last_stage == 1) {     /* the real C++ function returned, the emitted C did not */
            tvd_status(tmp, st); compared++;
            if (dis++ < 25) tvd_emit("dis", f, &tvd_inputs[last_j], cxx_r, tmp);
        }
        start = last_j + 1;
    }
    printf("{\"t\":\"done\",\"fn\":\"%s\",\"inputs\":%d,\"boundary\":%d,\"compared\":%d,\"ub_skipped\":%d,\"disagree\":%d,\"harness_errors\":%d,\"proto_same\":%d}\n",
           f->name, n, nbound, compared, ub, dis, harness, f->proto_same);
    fflush(stdout);
}
'''

DRIVER_MAIN = r'''
int main(int argc, char **argv)
{
    unsigned long long seed = argc > 1 ? strtoull(argv[1], 0, 10) : 0;
    int nrandom = argc > 2 ? atoi(argv[2]) : 300;
    int cap = argc > 3 ? atoi(argv[3]) : 512;
    const char *only = argc > 4 ? argv[4] : 0;
    if (nrandom + cap > TVD_MAXIN) nrandom = TVD_MAXIN - cap;
    tvd_inputs = (tvd_in *)malloc(sizeof(tvd_in) * TVD_MAXIN);
    setvbuf(stdout, 0, _IOFBF, 1 << 16);
    for (unsigned i = 0; i < sizeof tvd_fns / sizeof tvd_fns[0]; i++) {
        if (only && strcmp(only, tvd_fns[i].name) != 0) continue;
        tvd_run(&tvd_fns[i], seed, (int)i, nrandom, cap);
    }
    return 0;
}
'''


def _cxx_proto(c):
    """the emitted C prototype as an extern "C" declaration of the tv_ function"""
    p = re.sub(r'^\s*static\s+', '', c.proto)
    p = re.sub(r'\b_Bool\b', 'bool', p)
    p, n = re.subn(r'\b%s\s*\(' % re.escape(c.cname), 'tv_%s(' % c.cname, p, count=1)
    if n != 1: raise Ineligible('prototype text not understood: ' + c.proto)
    return p + ';'


def driver_text(tu_rel, cands):
    out = [DRIVER_HEAD.replace('@TU@', os.path.join(REPO, tu_rel))]
    nested = {}
    for c in cands: nested.update(c.nested)
    out.append(''.join('typedef %s %s;\n' % (v, k) for k, v in sorted(nested.items())))
    out.append('extern "C" {\n' + '\n'.join(_cxx_proto(c) for c in cands) + '\n}\n')
    table = []
    for k, c in enumerate(cands):
        real = 'tvd_real_%d' % k
        out.append('static %s = %s;\n' % (c.real_decl(real), c.real_ref))
        pds = []; pre = []; cxx_args = []; c_args = []
        idx = 0
        if c.recv == 'sstr':
            pre.append('SimpleString tvd_self(a[0].s);')
            pds.append('{2, 0, 0, 0}'); idx = 1
        elif c.recv == 'obj':
            pre.append('%s tvd_self{};' % c.cls)
        for p in c.params:
            if p['kind'] == 'int':
                e = '(%s)a[%d].u' % (p['ctype'], idx)
                pds.append('{0, %s, ((%s)-1 < (%s)0) ? 1 : 0, 0}' % ('1' if p['isbool'] else '(int)(sizeof(%s) * 8)' % p['ctype'], p['ctype'], p['ctype']))
                cxx_args.append(e); c_args.append(e)
            elif p['kind'] == 'enum':
                e = '(%s)(int)a[%d].u' % (p['ctype'], idx)
                out.append('static const long long tvd_ev_%d_%d[] = {%s};\n' % (k, idx, ', '.join('(long long)%s' % v for v in p['values'])))
                pds.append('{0, (int)(sizeof(%s) * 8), 1, 0, tvd_ev_%d_%d, %d}' % (p['ctype'], k, idx, len(p['values'])))
                cxx_args.append(e); c_args.append(e)
            elif p['kind'] == 'flt':
                e = '(%s)a[%d].d' % (p['ctype'], idx)
                pds.append('{1, 0, 1, %d}' % (1 if p['isf32'] else 0)); cxx_args.append(e); c_args.append(e)
            elif p['kind'] == 'str':
                e = '(const char *)a[%d].s' % idx
                pds.append('{2, 0, 0, 0}'); cxx_args.append(e); c_args.append(e)
            else:
                pre.append('SimpleString tvd_o%d(a[%d].s);' % (idx, idx))
                pds.append('{2, 0, 0, 0}'); cxx_args.append('tvd_o%d' % idx); c_args.append('&tvd_o%d' % idx)
            idx += 1
        np = idx
        # results that point into a SimpleString's buffer are compared by content: hide those inputs from the arg+offset rule
        if c.recv:
            call_cxx = '(tvd_self.*%s)(%s)' % (real, ', '.join(cxx_args))
            call_c = 'tv_%s(%s)' % (c.cname, ', '.join(['&tvd_self'] + c_args))
            np_repr = 0 if c.recv == 'sstr' else np
        else:
            call_cxx = '%s(%s)' % (real, ', '.join(cxx_args))
            call_c = 'tv_%s(%s)' % (c.cname, ', '.join(c_args))
            np_repr = np
        if c.ret_kind == 'enum': call_cxx = '(long long)(%s)' % call_cxx; call_c = '(long long)(%s)' % call_c
        out.append('static void tvd_cxx_%d(const tvd_val *a, char *out) { %s tvd_repr(out, a, %d, %s); }\n' % (k, ' '.join(pre), np_repr, call_cxx))
        out.append('static void tvd_c_%d(const tvd_val *a, char *out) { %s tvd_repr(out, a, %d, %s); }\n' % (k, ' '.join(pre), np_repr, call_c))
        same = '(int)tvd_same<__typeof__(%s), __typeof__(&tv_%s)>::v' % (real, c.cname) if (c.static and not any(p['kind'] == 'sstr' for p in c.params)) else '-1'      # R4 turns references into pointers on purpose
        table.append('  {"%s", %d, {%s}, tvd_cxx_%d, tvd_c_%d, %s}' % (c.cname, np, ', '.join(pds) or '{0, 0, 0, 0}', k, k, same))
    out.append('static const tvd_fn tvd_fns[] = {\n' + ',\n'.join(table) + '\n};\n')
    out.append(DRIVER_MAIN)
    return ''.join(out)


# ------------------------------------------------------------------------------------------------
# native library objects of /repo's current tree (cached per session)

_lib_lock = threading.Lock()


def _run(cmd, cwd=None, timeout=600, env=None):
    try:
        p = subprocess.run(cmd, cwd=cwd, capture_output=True, text=True, timeout=timeout, env=env, errors='replace')
        return p.returncode, p.stdout, p.stderr
    except subprocess.TimeoutExpired as ex:
        so = ex.stdout or ''
        if isinstance(so, bytes): so = so.decode(errors='replace')
        return -9, so, 'TIMEOUT after %ds' % timeout


def cxx_flags(session, defines=()):
    return ['-std=c++11', '-O0', '-w', '-I' + os.path.join(REPO, 'include'), '-I' + session.gen, '-DHAVE_CONFIG_H'] + ['-D' + d for d in defines]


def lib_objects(session, ext=False, defines=()):
    """compile the library sources of /repo's working tree once per session; returns {source rel path: object} or raises Broken"""
    key = (bool(ext), tuple(defines))
    with _lib_lock:
        cache = session.__dict__.setdefault('_tv_lib', {})
        if key in cache: return cache[key]
        bdir = os.path.join(session.dir, 'tv_lib' + ('_' + re.sub(r'\W', '_', '_'.join(defines)) if defines else ''))
        os.makedirs(bdir, exist_ok=True)
        srcs = sorted(glob.glob(os.path.join(REPO, 'src/CppUTest/*.cpp')) + glob.glob(os.path.join(REPO, 'src/Platforms/Gcc/*.cpp')))
        if ext: srcs += sorted(glob.glob(os.path.join(REPO, 'src/CppUTestExt/*.cpp')))
        flags = cxx_flags(session, defines)
        def cc(s):
            o = os.path.join(bdir, re.sub(r'\W', '_', os.path.relpath(s, REPO)) + '.o')
            if not os.path.exists(o):
                rc, so, se = _run(['g++'] + flags + ['-c', s, '-o', o + '.tmp.o'], timeout=300)
                if rc != 0: return s, None, se[-1500:]
                os.rename(o + '.tmp.o', o)
            return s, o, ''
        with ThreadPoolExecutor(max_workers=16) as ex:
            res = list(ex.map(cc, srcs))
        bad = [(s, e) for s, o, e in res if o is None]
        if bad: raise verif.Broken('native build of /repo sources failed: %s: %s' % bad[0])
        cache[key] = {os.path.relpath(s, REPO): o for s, o, e in res}
        return cache[key]


# ------------------------------------------------------------------------------------------------
# build + run one translation unit

def _build(session, u, tu_rel, cands, closures, tag, defines, corrupt, libs):
    """returns (exe, None) or (None, error text)"""
    d = tempfile.mkdtemp(prefix='tv_' + re.sub(r'\W', '_', os.path.basename(tu_rel)) + '_' + tag + '.', dir=session.dir)
    try:
        ctext = c_side_text(u, cands, closures, corrupt)
        dtext = driver_text(tu_rel, cands)
    except Ineligible as ex:
        return None, str(ex)
    open(os.path.join(d, 'cside.c'), 'w').write(ctext)
    open(os.path.join(d, 'driver.cpp'), 'w').write(dtext)
    ext = 'CppUTestExt' in tu_rel
    def cc_c(san):
        return _run(['gcc', '-std=gnu11', '-O0', '-g', '-w', '-Werror=implicit-function-declaration'] + (SAN if san else []) + ['-D' + x for x in defines] + ['-c', 'cside.c', '-o', 'cside%d.o' % san], cwd=d, timeout=300)
    def cc_d(san):
        return _run(['g++'] + cxx_flags(session, defines) + ['-g', '-fno-access-control', '-I' + REPO] + (SAN if san else []) + ['-c', 'driver.cpp', '-o', 'driver%d.o' % san], cwd=d, timeout=300)
    with ThreadPoolExecutor(max_workers=2) as ex:
        fc = ex.submit(cc_c, 1); fd = ex.submit(cc_d, 1)
        rc_c, _, se_c = fc.result(); rc_d, _, se_d = fd.result()
    if rc_c != 0:
        errs = [l for l in se_c.splitlines() if 'error' in l][:4]
        return None, 'emitted C does not compile: ' + (' | '.join(errs) or se_c[-600:])
    if rc_d != 0:
        errs = [l for l in se_d.splitlines() if 'error' in l][:4]
        return None, 'C++ driver does not compile: ' + (' | '.join(errs) or se_d[-600:])
    objs = [o for s, o in sorted(libs.items()) if s != tu_rel]
    exe = os.path.join(d, 'tv_exe')
    rc, so, se = _run(['g++'] + SAN + ['driver1.o', 'cside1.o'] + objs + ['-lpthread', '-lm', '-o', exe], cwd=d, timeout=300)
    if rc != 0:
        # retry without sanitizers (only if the sanitized link is the problem)
        first = se
        r1 = cc_c(0); r2 = cc_d(0)
        if r1[0] == 0 and r2[0] == 0:
            rc, so, se = _run(['g++', 'driver0.o', 'cside0.o'] + objs + ['-lpthread', '-lm', '-o', exe], cwd=d, timeout=300)
        if rc != 0:
            errs = [l for l in first.splitlines() if 'undefined reference' in l or 'multiple definition' in l or 'error' in l][:4]
            return None, 'link failed: ' + (' | '.join(errs) or first[-600:])
    return exe, None


def _execute(exe, seed, n_random, cap, timeout):
    env = dict(os.environ)
    # symbolize=0: a sanitizer report that has to be symbolized costs 0.5 s, one that is not costs 5 ms
    env['ASAN_OPTIONS'] = 'detect_leaks=0:abort_on_error=0:allocator_may_return_null=1:symbolize=0'
    env['UBSAN_OPTIONS'] = 'print_stacktrace=0:symbolize=0'
    rc, so, se = _run(['timeout', str(timeout), exe, str(seed), str(n_random), str(cap)], timeout=timeout + 30, env=env)
    recs = []
    for l in so.splitlines():
        try: recs.append(json.loads(l))
        except Exception: pass
    return rc, recs, se


def _validate_tu(session, tu_rel, names, n_random, seed, defines, corrupt, out, libs_future, cap):
    try:
        u = session.unit(tu_rel, defines)
    except verif.Broken as ex:
        for n in names: out['skipped'].append(dict(function=n, tu=tu_rel, reason='translation unit not loadable: %s' % ex))
        return
    cands = []; closures = {}
    for n in names:
        try:
            c = analyse(u, tu_rel, n)
            closures[n] = closure(u, n)
            cands.append(c)
        except Ineligible as ex:
            out['skipped'].append(dict(function=n, tu=tu_rel, reason=str(ex)))
        except Exception as ex:
            out['skipped'].append(dict(function=n, tu=tu_rel, reason='internal: %s: %s' % (type(ex).__name__, ex)))
    if not cands: return
    try:
        libs = libs_future()
    except verif.Broken as ex:
        for c in cands: out['skipped'].append(dict(function=c.cname, tu=tu_rel, reason=str(ex)))
        return
    groups = []
    exe, err = _build(session, u, tu_rel, cands, closures, 'all', defines, corrupt, libs)
    if exe: groups.append((exe, cands))
    elif len(cands) == 1:
        out['skipped'].append(dict(function=cands[0].cname, tu=tu_rel, reason=err))
    else:
        # one function breaks the build: isolate it by building every function on its own
        def one(ic):
            i, c = ic
            return c, _build(session, u, tu_rel, [c], closures, 'f%d' % i, defines, corrupt, libs)
        with ThreadPoolExecutor(max_workers=8) as ex:
            for c, (exe1, err1) in ex.map(one, list(enumerate(cands))):
                if exe1: groups.append((exe1, [c]))
                else: out['skipped'].append(dict(function=c.cname, tu=tu_rel, reason=err1))
    for exe, cs in groups:
        budget = 60 + 20 * len(cs) + (n_random * len(cs)) // 200
        rc, recs, se = _execute(exe, seed, n_random, cap, budget)
        done = set()
        for r in recs:
            if r.get('t') == 'dis':
                kind = 'crash' if (r['c'].startswith('CRASH(') or r['cxx'].startswith('CRASH(')) else 'value'
                out['disagreements'].append(dict(function=r['fn'], tu=tu_rel, inputs=r['inputs'], c_result=r['c'], cxx_result=r['cxx'], kind=kind))
            elif r.get('t') == 'sample':
                if sum(1 for s in out['samples'] if s['function'] == r['fn']) < 4:
                    out['samples'].append(dict(function=r['fn'], inputs=r['inputs'], result=r['c']))
            elif r.get('t') == 'ub':
                out['ub_examples'].append(dict(function=r['fn'], inputs=r['inputs'], c_result=r['c'], cxx_result=r['cxx']))
            elif r.get('t') == 'done':
                done.add(r['fn'])
                out['per_function'].append(dict(function=r['fn'], tu=tu_rel, inputs=r['inputs'], boundary=r['boundary'], compared=r['compared'],
                                                ub_skipped=r['ub_skipped'], disagreements=r['disagree'], proto_same=r['proto_same']))
                if r['compared'] > 0: out['programs'] += 1
                out['inputs_run'] += r['compared']
                if r['proto_same'] == 0:
                    c = [x for x in cs if x.cname == r['fn']][0]
                    out['disagreements'].append(dict(function=r['fn'], tu=tu_rel, inputs=None, c_result='prototype ' + c.proto,
                                                     cxx_result='type ' + c.f['type']['qualType'], kind='prototype'))
                if r['harness_errors']:
                    out['skipped'].append(dict(function=r['fn'], tu=tu_rel, reason='%d inputs lost to harness errors (fork/pipe)' % r['harness_errors']))
        for c in cs:
            if c.cname not in done:
                out['skipped'].append(dict(function=c.cname, tu=tu_rel, reason='driver did not finish (rc=%s): %s' % (rc, se[-300:])))


def validate(session, pairs, n_random=300, seed=None, defines=(), cap=CAP_BOUNDARY, _corrupt=None):
    """pairs: iterable of (translation unit path relative to /repo, C function name).
    seed None = $VERIF_SEED or 0.  defines: extra -D for both sides (build variant).  cap: boundary combinations per function.
    returns dict(programs, inputs_run, disagreements [dict(function, tu, inputs, c_result, cxx_result, kind value|crash|prototype)],
                 skipped [dict(function, tu, reason)], samples, wall_s, per_function, ub_examples, seed, n_random)"""
    t0 = time.time()
    if seed is None: seed = int(os.environ.get('VERIF_SEED', '0') or 0)
    out = dict(programs=0, inputs_run=0, disagreements=[], skipped=[], samples=[], per_function=[], ub_examples=[], wall_s=0.0,
               seed=seed, n_random=n_random)
    by_tu = {}
    for tu_rel, cn in pairs:
        if cn not in by_tu.setdefault(tu_rel, []): by_tu[tu_rel].append(cn)
    if not by_tu:
        return out
    # the library build runs while clang loads the translation unit
    pool = ThreadPoolExecutor(max_workers=2)
    futs = {}
    for ext in sorted(set('CppUTestExt' in t for t in by_tu)):
        futs[ext] = pool.submit(lib_objects, session, ext, tuple(defines))
    for tu_rel, names in by_tu.items():
        ext = 'CppUTestExt' in tu_rel
        try:
            _validate_tu(session, tu_rel, names, n_random, seed, tuple(defines), _corrupt, out, futs[ext].result, cap)
        except Exception as ex:           # never crash: everything unexpected is a skip with a reason
            for n in names:
                if not any(p['function'] == n and p['tu'] == tu_rel for p in out['per_function']):
                    out['skipped'].append(dict(function=n, tu=tu_rel, reason='internal: %s: %s' % (type(ex).__name__, ex)))
    pool.shutdown(wait=True)
    out['wall_s'] = round(time.time() - t0, 1)
    return out


def candidates(session, tu_rel, substr='', defines=()):
    """C names of all functions defined in the .cpp file itself"""
    u = session.unit(tu_rel, tuple(defines))
    src = os.path.realpath(os.path.join(REPO, tu_rel))
    names = []
    for cn, f in sorted(u.fn.items()):
        if substr and substr not in cn: continue
        if not _has_body(f): continue
        fl = u.tu.file_of(f) or (u.tu.line_of(f)[0])
        if fl and os.path.realpath(fl) == src: names.append(cn)
    return names


# ------------------------------------------------------------------------------------------------
# self-test: the guard must fire when the emitted C is wrong

MUTANTS = [
    ('src/CppUTest/SimpleString.cpp', 'SimpleString_AtoI', 'first constant 10 -> 9', lambda t: _sub_code(t, r'\b10\b', '9')),
    ('src/CppUTest/SimpleString.cpp', 'SimpleString_StrCmp', 'first == -> !=', lambda t: _sub_code(t, r'==', '!=')),
    ('src/CppUTest/SimpleString.cpp', 'SimpleString_StrCmp', 'unsigned char cast dropped (sign of bytes >= 0x80)', lambda t: t.replace('const unsigned char *', 'const char *')),
    ('src/CppUTest/SimpleString.cpp', 'SimpleString_isSpace', 'constant 14 -> 13', lambda t: _sub_code(t, r'\b14\b', '13')),
]


def _sub_code(text, pat, repl):
    """first match outside #line directives and outside the prototype line"""
    lines = text.split('\n'); seen_brace = False
    for i, l in enumerate(lines):
        if '{' in l: seen_brace = True
        if l.startswith('#line') or not seen_brace: continue
        l2, n = re.subn(pat, repl, l, count=1)
        if n: lines[i] = l2; break
    return '\n'.join(lines)


def selftest(session, n_random=300, seed=None):
    """returns dict(ok, baseline_disagreements, mutants=[dict(function, mutation, changed, detected, example)])"""
    t0 = time.time()
    pairs = sorted(set((tu, fn) for tu, fn, _, _ in MUTANTS))
    base = validate(session, pairs, n_random=n_random, seed=seed)
    res = dict(ok=True, baseline_disagreements=len(base['disagreements']), baseline_programs=base['programs'], mutants=[])
    if base['disagreements'] or base['programs'] != len(pairs): res['ok'] = False
    for tu, fn, what, mut in MUTANTS:
        changed = []
        def corrupt(cn, text, fn=fn, mut=mut, changed=changed):
            if cn != fn: return text
            t2 = mut(text)
            if t2 != text: changed.append(cn)
            return t2
        r = validate(session, [(tu, fn)], n_random=n_random, seed=seed, _corrupt=corrupt)
        hits = [d for d in r['disagreements'] if d['function'] == fn]
        m = dict(function=fn, mutation=what, changed=bool(changed), detected=bool(hits), example=hits[0] if hits else None,
                 skipped=[s['reason'] for s in r['skipped']])
        if not (m['changed'] and m['detected']): res['ok'] = False
        res['mutants'].append(m)
    res['wall_s'] = round(time.time() - t0, 1)
    return res


# ------------------------------------------------------------------------------------------------
# CLI

def _print_report(res, verbose=False):
    print('%-58s %-9s %8s %8s %6s' % ('function', 'status', 'compared', 'boundary', 'UB'))
    for p in res['per_function']:
        st = 'DISAGREE' if (p['disagreements'] or p['proto_same'] == 0) else 'agree'
        print('%-58s %-9s %8d %8d %6d' % (p['function'], st, p['compared'], p['boundary'], p['ub_skipped']))
    if res['skipped']:
        reasons = {}
        for s in res['skipped']: reasons.setdefault(re.sub(r'\b(parameter|global|callee|seam) \S+', r'\1 *', s['reason'])[:90], []).append(s)
        print('\nskipped: %d functions' % len(res['skipped']))
        if verbose:
            for s in res['skipped']: print('  %-56s %s' % (s['function'], s['reason'][:200]))
        else:
            for r, ss in sorted(reasons.items(), key=lambda kv: -len(kv[1])):
                print('  %4d  %s   (e.g. %s)' % (len(ss), r, ss[0]['function']))
    if res['ub_examples']:
        print('\nagreement-by-UB examples (both sides crash / sanitizer report; not compared):')
        for d in res['ub_examples'][:6]: print('  %s%s  c++: %s  c: %s' % (d['function'], json.dumps(d['inputs']), d['cxx_result'], d['c_result']))
    if verbose and res['samples']:
        print('\nsamples:')
        for s in res['samples']: print('  %s%s = %s' % (s['function'], json.dumps(s['inputs']), s['result']))
    if res['disagreements']:
        print('\nDISAGREEMENTS (the emitter is wrong, this is not a property verdict):')
        for d in res['disagreements'][:40]:
            print('  %s%s  emitted C: %s   real C++: %s' % (d['function'], json.dumps(d['inputs']), d['c_result'], d['cxx_result']))
    print('\nprograms=%d inputs_run=%d disagreements=%d skipped=%d seed=%s n_random=%s wall=%.1fs' % (
        res['programs'], res['inputs_run'], len(res['disagreements']), len(res['skipped']), res['seed'], res['n_random'], res['wall_s']))


def main(argv):
    import argparse
    ap = argparse.ArgumentParser(description='translation validation of the emitted C by differential execution')
    ap.add_argument('tu', nargs='?'); ap.add_argument('substr', nargs='?', default='')
    ap.add_argument('--selftest', action='store_true'); ap.add_argument('--n', type=int, default=int(os.environ.get('VERIF_TV_N', '300')))
    ap.add_argument('--seed', type=int, default=int(os.environ.get('VERIF_SEED', '0')))
    ap.add_argument('--define', '-D', action='append', default=[]); ap.add_argument('-v', '--verbose', action='store_true')
    ap.add_argument('--keep', action='store_true'); ap.add_argument('--json', action='store_true')
    a = ap.parse_args(argv)
    s = verif.Session(keep=a.keep)
    if a.keep: log('scratch directory: ' + s.dir)
    if a.selftest:
        r = selftest(s, n_random=a.n, seed=a.seed)
        if a.json: print(json.dumps(r, indent=1))
        else:
            print('baseline: %d programs, %d disagreements' % (r['baseline_programs'], r['baseline_disagreements']))
            for m in r['mutants']:
                ex = m['example']
                print('  mutant %-22s %-52s %s%s' % (m['function'], m['mutation'], 'DETECTED' if m['detected'] else ('NOT DETECTED' if m['changed'] else 'MUTATION DID NOT APPLY'),
                                                    ('  e.g. %s -> C %s / C++ %s' % (json.dumps(ex['inputs']), ex['c_result'], ex['cxx_result'])) if ex else ''))
                for sk in m['skipped']: print('      skipped: ' + sk[:300])
            print('selftest %s (%.1fs)' % ('OK: the guard fires on every corrupted emission' if r['ok'] else 'FAILED', r['wall_s']))
        return 0 if r['ok'] else 2
    if not a.tu:
        ap.print_usage(); return 2
    try:
        names = candidates(s, a.tu, a.substr, a.define)
    except verif.Broken as ex:
        print('UNDECIDED ' + str(ex)); return 2
    res = validate(s, [(a.tu, n) for n in names], n_random=a.n, seed=a.seed, defines=tuple(a.define))
    if a.json: print(json.dumps(res, indent=1, default=str))
    else: _print_report(res, a.verbose)
    return 2 if res['disagreements'] else 0


if __name__ == '__main__':
    sys.exit(main(sys.argv[1:]))
