#!/usr/bin/env python3
"""regenerate /verif/MANIFEST.json from the table below (keeps it schema-valid)"""
import json, os
HERE = os.path.dirname(os.path.dirname(os.path.abspath(__file__)))

TECH = 'CBMC code contracts (goto-instrument --dfcc enforce/replace, loop contracts) on C mechanically lowered from the real C++ by a clang-AST emitter on every run'

CLAIMS = {
 'C03': dict(cat='proof', ref='DESIGN.md section 4, C03',
   text='doubles_equal is proved against the statement (NaN equals nothing; non-negative tolerance: same value incl. same infinity, or |d1-d2| <= tolerance) for all 2^192 operand triples; the check entry points are proved where listed in the evidence (string predicates modulo the C13 primitives, of which contains/equalsNoCase/containsNoCase are bounded stand-ins). Macro expansions in the user TU are undecided.',
   note='trusted: IEEE-754 as encoded by CBMC; seam contracts of PlatformSpecificIsNan/IsInf/Fabs (C library meaning); emitter rules; see evidence.assumptions'),
 'C05': dict(cat='proof', ref='DESIGN.md section 4, C05',
   text='size arithmetic of tracked allocations proved wrap-free or rejecting for all 2^64 sizes; block layout (user bytes, guard bytes, accounting node inside the allocation, aligned, non-overlapping) proved for both layouts with symbolic sizes; NULL from the allocator leaves the table untouched.',
   note='trusted: allocator seam returns NULL or a fresh block of the requested size (NULL above 2^40); table summary contract (proved in C04); emitter rules'),
 'C13': dict(cat='proof', ref='DESIGN.md section 4, C13',
   text='the C-library-like primitives are proved equal to their textbook definition for all NUL-terminated strings in objects of any size up to 2^40 bytes (loop contracts, ghost index); object methods as listed in the evidence; bounded stand-ins (all byte values, texts of up to 3..5 bytes, labelled bounded) for StrStr completeness, replace, printable(), contains/containsNoCase/equalsNoCase/startsWith/endsWith; buffer give-back undecided where temporaries occur (destructors of temporaries are not lowered).',
   note='trusted: emitter rules; string allocator seam; ghost-index encoding of universals'),
 'C01': dict(cat='other', ref='DESIGN.md section 4, C01',
   text='PARTIAL claim, decided by contract proofs: the verdict arithmetic (isFailure <=> failures != 0 or run + ignored == 0), the counters (each count* increments exactly its own counter), addFailure (count + 1, printed once) and the summary line (true counts, OK exactly when not a failure). Phase sequencing of Utest::run is proved for BOTH builds (exception build through emitter rule R13b, try/catch/throw at statement granularity): for all 125 outcome combinations of setup/body/teardown (completes, C-style failing check, C++-style failing check, std exception, foreign exception) the body runs exactly when setup completed, teardown runs exactly once afterwards, one failure is recorded per escaped std/foreign exception, and the jump-buffer depth is back at its pre-test value on every path; runOneTestInCurrentProcess is proved to bracket the run with the plugin actions and to put the current test/result back. The setjmp seam is an assumed model (confirmed against the real platform layer by the native driver on all 125 combinations); what happens INSIDE a user-written phase after a failing check is C++/longjmp semantics, not an obligation.',
   note='partial claim; trusted: emitter rules, print stubs; undecided clauses in contracts/C01.undecided.txt'),
 'C02': dict(cat='proof', ref='DESIGN.md section 4, C02',
   text='swap/shuffle/reverse proved for arrays of any size and any value of the rand seam (every swap in range, nothing else written, loops terminate); filter predicate proved against the statement; list walks, relinking and the registry loop as bounded stand-ins (bounds in the evidence).',
   note='trusted: rand seam returns any int; in-range transpositions compose to a permutation (pen and paper); bounded stand-ins are labelled bounded and not counted as proved'),
 'C04': dict(cat='proof', ref='DESIGN.md section 4, C04',
   text='period/stage predicates proved for the full domain from the statement; bucket-chain operations as bounded stand-ins over every chain shape up to N nodes; table operations proved modularly on list summary contracts; detector operations proved with table calls replaced by contract. Whole-history exactness is the induction over these contracts.',
   note='chains are bounded stand-ins (N in the evidence); composition into histories is a pen-and-paper induction; allocator seams assumed'),
 'C06': dict(cat='proof', ref='DESIGN.md section 4, C06',
   text='guard-byte predicate proved for all 2^24 contents; checkForCorruption proved to issue exactly one of mismatch / corruption / nothing as the statement demands for all guard contents and allocator pairs; deallocMemory, invalidateMemory and the delete/free entry points (poison before release, own family allocator) proved with ghost call logs.',
   note='trusted: report functions are stubs with ghost counters (their text is C14); allocator virtuals by base contract'),
 'C07': dict(cat='proof', ref='DESIGN.md section 4, C07',
   text='pre/post test actions proved: a failure is added exactly once iff not ignoring, expected != leaks, no earlier failure; afterwards no block is left in the checking period (demotion: bounded), flags reset. The blame lemma is pen and paper over the C04/C06 contracts.',
   note='that pre/post bracket setup..teardown is in try/catch code (C01 gap); demotion loop bounded'),
 'C08': dict(cat='other', ref='DESIGN.md section 9.9 (C08 as built)',
   text='PARTIAL claim, four layers under contract, none of which is the history-level iff of the statement: (L1) the per-expectation predicates and counters of MockCheckedExpectedCall (an expectation with expected count n is a candidate for exactly n calls and fulfilled exactly at n, for every 32-bit n; order window; parameter/object matching state), full domain; (L2) all MockExpectedCallsList operations as bounded stand-ins over every list shape of up to 3 nodes (4 in the thorough tier) with arbitrary per-expectation predicate answers: counts and existence tests are the textbook ones, every onlyKeep* keeps exactly the qualifying nodes in order and releases each dropped node once without ever releasing an expectation, removeFirst*/getFirst* take the first qualifying one, add* append the qualifying source expectations in order; (L3) the steps of MockCheckedActualCall (withName, checkInput/OutputParameter, onObject, completeCallWhenMatchIsFound, checkExpectations, failTest: a failure is delivered at most once, the failing step is the one that empties the candidate list, exactly one expectation is counted for a succeeding call) over an abstract candidate set of 3 expectations; (L4) MockSupport expectNCalls / actualCall / checkExpectations for a scope without nested scopes (strict-order windows tile, previous call judged once). That every scenario passes iff the multisets agree is an induction over these steps that no obligation discharges.',
   note='partial claim; bounded stand-ins labelled in the evidence; trusted: virtual dispatch to the checked classes, value comparison (C09), failure texts; undecided clauses in contracts/C08.undecided.txt'),
 'C09': dict(cat='proof', ref='DESIGN.md section 4, C09',
   text='MockNamedValue::equals proved against the statement for all pairs of the 13 stored type tags plus an arbitrary other tag with full-width symbolic values: integer pairs by sign and magnitude in both directions, identity for bool/pointers, different non-integer tags never equal; widening getters return the stored integer or fail.',
   note='trusted: tag strings modelled byte-wise in fresh 24-byte objects; string/memory/double comparisons through the C13/C03 contracts'),
 'C11': dict(cat='proof', ref='DESIGN.md section 4, C11',
   text='parent-side logic proved for every 32-bit status word and every sequence of fork/waitpid outcomes: exactly one failure per non-zero exit / signal / stop event, fork and wait errors reported once, at most 31 EINTR retries, SIGCONT exactly for stopped children.',
   note='trusted: the kernel reports a killed child as signalled; the child branch (_exit value) is in try/catch code; termination not claimed (a child may stop arbitrarily often)'),
 'C12': dict(cat='other', ref='DESIGN.md section 4, C12',
   text='PARTIAL claim: numeric parsing (AtoI/AtoU) and the argv index discipline / substring preconditions of the listed helpers are proved; the meaning of -r and -s (attached value, next-argument value consumed exactly when it is a non-zero number, defaults) is proved against the help text for vectors of 1..2 arguments of up to 5 characters; the option dispatch of parse() is a bounded stand-in (1..2 arguments quick, 3 thorough, handlers as logging stubs). Filter text extraction and the runner side are undecided.',
   note='partial claim; undecided clauses in contracts/C12.undecided.txt'),
 'C14': dict(cat='other', ref='DESIGN.md section 4, C14',
   text='PARTIAL claim: every write of the fixed 4096-byte report buffer proved in bounds with the text terminated (invariant positions_filled_ <= 4095, write_limit_ <= 4095) for all call sequences of add/setWriteLimit/resetWriteLimit/clear; leak counting and the too-many notice of the report writer proved. The four failure constructors that print a difference position (CheckEqual, StringEqual, StringEqualNoCase, BinaryEqual) are proved as bounded stand-ins (operands and printable forms of up to 4 characters) to read only the operands\' own bytes and to report the first differing index; printable() is proved (bounded, 3 bytes) to be the textbook escaping. The texts of the other failure classes are undecided.',
   note='partial claim; vsnprintf modelled by a stub body (one arbitrary in-range write + NUL); undecided clauses in contracts/C14.undecided.txt'),
 'C15': dict(cat='proof', ref='DESIGN.md section 4, C15',
   text='the fire predicate proved against the statement (location entries fire on their n-th allocation at that location only, global entries on the global index); pending-list operations as bounded stand-ins; countdown allocator switching and the NULL behaviour of calloc/strdup/strndup proved.',
   note='pending list bounded (N in the evidence); side condition: two pending entries never designate the same allocation'),
 'C16': dict(cat='other', ref='DESIGN.md section 9.10 (C16 as built)',
   text='PARTIAL claim, the decomposition that worked for C20: (A) every writer of JUnitTestOutput is proved to pass every VALUE (group, package, test name, test file, failure file, failure message, captured output) through encodeXmlText before it reaches the file, to write the fixed skeleton texts with every attribute value inside double quotes, one testcase element per collected test in list order with a failure element exactly for failed and a skipped marker exactly for ignored tests, the suite line with the collected test and failure counts, and open/header/summary/properties/cases/ending/close in this order (lists of up to 3 nodes: bounded); (B) encodeXmlText makes the six replacements in the order & " < > CR LF with the right entities, and a lemma over all 255 characters shows the result contains no raw markup character and decodes back; (C) collection: one node per started test appended at the tail with name/file/line/ignored, the first failure of a test counted and kept, later ones ignored, reset releases every node and failure once; (D) the file name is cpputest_[package_]group.xml with the ten forbidden characters replaced. That the whole file is accepted by an XML parser follows from (A)+(B) by an argument about the fixed skeleton, judged only by the native driver, not by an obligation.',
   note='partial claim; trusted: StringFromFormat renders %s/%d as C does; replace() is C13; time stamp free of markup; undecided clauses in contracts/C16.undecided.txt'),
 'C17': dict(cat='proof', ref='DESIGN.md section 4, C17',
   text='pointer table discipline proved (no slot written at or beyond 32, failure raised instead; restore loop in bounds, terminates, index reset); restore order and plugin chains as bounded stand-ins.',
   note='restore order and plugin chains bounded (n in the evidence); that post actions run after failing/throwing tests is the C01 gap'),
 'C18': dict(cat='proof', ref='DESIGN.md section 4, C18',
   text='size-class selection proved complete; per-class list operations as bounded stand-ins (N blocks); alloc/dealloc/clear proved on top: a handed-out block has at least the requested size and was not in use, an unknown release sets the warning flag and changes no list, every block is freed exactly once on clear.',
   note='lists bounded (N in the evidence); allocator by base contract; no-aliasing over all histories is the induction on the representation invariant'),
 'C10': dict(cat='other', ref='DESIGN.md section 9.7 (C10 as built)',
   text='PARTIAL claim (the sequential, per-call part of the property): each of the eleven threadsafe_* wrappers is proved to take the detector\'s own mutex exactly once before touching the detector, to reach every detector operation with the mutex held, never to take it while held (non-recursive: the hang), to return with it released, and to ask the detector exactly what its single-threaded twin asks; turnOnThreadSafeNewDeleteOverloads is proved to install the wrapper in all eleven slots; a misuse report raised inside a wrapper is proved to release the mutex before its non-local exit and to release nothing when nobody holds it. Scope-exit destructor calls of the RAII lock are produced by emitter rule R17. The schedule-quantified part (no data race, linearisable accounting over all interleavings) is NOT decided by any obligation: it is an argument from the proved lock discipline plus POSIX mutex semantics.',
   note='partial claim; trusted: POSIX mutex semantics, that all detector state is reached only through the eleven entry points in this mode, exception unwinding runs destructors; undecided clauses in contracts/C10.undecided.txt'),
 'C19': dict(cat='other', ref='DESIGN.md section 9.8 (C19 as built)',
   text='PARTIAL claim "forwarder wiring": every entry point of the three C function tables of MockSupport_c.cpp (about 100 one-line forwarders) is proved to reach exactly the C++ method of the same name and type family (mapping derived from the names in the public headers by tools/gen_C19.py, not from the forwarder bodies) on the current object, once, with its arguments unchanged at full width, to chain the right static current-object pointer and to return the right table; the OrDefault entry points return the default exactly when there is no return value; the conversion to the C tagged union gives every type name its tag, union member and getter; every slot of the three tables holds the forwarder of its name. That the two interfaces then produce the same verdict, failure text and output bytes is the mock engine (C08/C09), not decided here. One open finding (known_findings.json): the return-value slots shared between MockActualCall_c and MockSupport_c consult one fixed object each.',
   note='partial claim; trusted: virtual dispatch reaches the override of the dynamic type; engine equivalence; undecided clauses in contracts/C19.undecided.txt; OrDefault proofs assume the coherent state (current actual call = last actual call of the current MockSupport)'),
 'C20': dict(cat='other', ref='DESIGN.md section 4, C20',
   text='PARTIAL claim: printEscaped proved to emit exactly one correct chunk per input byte for strings of any length, plus the decoding lemma; balance of suite/test messages is the C02 registry loop (bounded); that every writer passes every value through printEscaped is undecided.',
   note='partial claim; undecided clauses in contracts/C20.undecided.txt'),
}
NOT_APPLICABLE = {
}
PENDING = 'contracts not yet written in this round (planned claim, see DESIGN.md section 4); not claimed until a check exists'

NOT_YET = set(os.environ.get('VERIF_NOT_YET', '').split(','))   # properties whose spec files exist but are not finished

def main():
    props = [json.loads(l)['id'] for l in open(os.path.join(HERE, 'properties.jsonl'))]
    checks = []
    for pid in props:
        if pid in CLAIMS and pid not in NOT_YET and os.path.exists(os.path.join(HERE, 'contracts', pid + '.spec')):
            c = CLAIMS[pid]
            checks.append({
                'property_id': pid,
                'quick_cmd': './check %s --tier quick' % pid,
                'thorough_cmd': './check %s --tier thorough' % pid,
                'evidence_file': 'evidence/%s.json' % pid,
                'replay_cmd_template': './check %s --replay {path}' % pid,
                'engine': 'cbmc-contracts',
                'level_claimed': {'category': c['cat'], 'text': c['text'], 'design_ref': c['ref']},
                'level_note': c['note'],
                'technique': TECH,
            })
    na = []
    for pid in props:
        if pid in NOT_APPLICABLE: na.append({'property_id': pid, 'reason': NOT_APPLICABLE[pid]})
        elif not any(c['property_id'] == pid for c in checks): na.append({'property_id': pid, 'reason': PENDING})
    m = {
        'version': 1,
        'setup_cmd': 'python3 -m compileall -q tools >/dev/null 2>&1; cbmc --version >/dev/null && goto-instrument --version >/dev/null && clang++ --version >/dev/null && kissat --version >/dev/null',
        'hooks': {'guard': 'CPPUTEST_VERIF', 'enable': 'none needed: verification reads /repo sources on every run, native replay #includes them; the guard name is reserved only',
                  'baseline_off_cmd': 'cmake -G Ninja -S /repo -B /repo/_build >/dev/null && (cmake --build /repo/_build -- -k 0 >/dev/null; true) && ctest --test-dir /repo/_build -j8 --timeout 900',
                  'source_commits': [], 'add_only': True},
        'engines': [{'name': 'cbmc-contracts', 'path': 'check', 'serves_properties': [c['property_id'] for c in checks],
                     'kind_free_text': 'contract-based deductive verification: clang-AST C++->C emitter (tools/cxx2c.py), contract specs (contracts/*.spec), goto-instrument --dfcc, cbmc 6.11 with kissat/z3/cvc5, native replay (replay/*.cpp)'}],
        'checks': checks,
        'notes': 'fix commits in /repo and known findings: known_findings.json; method: DESIGN.md; authoring guide: tools/HOWTO.md',
        'not_applicable': na,
    }
    json.dump(m, open(os.path.join(HERE, 'MANIFEST.json'), 'w'), indent=1)
    print('%d checks, %d not applicable/pending' % (len(checks), len(na)))

if __name__ == '__main__':
    main()
