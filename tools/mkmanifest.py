#!/usr/bin/env python3
"""regenerate /verif/MANIFEST.json from the table below (keeps it schema-valid)"""
import json, os
HERE = os.path.dirname(os.path.dirname(os.path.abspath(__file__)))

TECH = 'CBMC code contracts (goto-instrument --dfcc enforce/replace, loop contracts) on C mechanically lowered from the real C++ by a clang-AST emitter on every run'

CLAIMS = {
 'C03': dict(cat='proof', ref='DESIGN.md section 4, C03',
   text='doubles_equal is proved against the statement (NaN equals nothing; non-negative tolerance: same value incl. same infinity, or |d1-d2| <= tolerance) for all 2^192 operand triples; the check entry points are proved where listed in the evidence. Macro expansions in the user TU are undecided.',
   note='trusted: IEEE-754 as encoded by CBMC; seam contracts of PlatformSpecificIsNan/IsInf/Fabs (C library meaning); emitter rules; see evidence.assumptions'),
 'C05': dict(cat='proof', ref='DESIGN.md section 4, C05',
   text='size arithmetic of tracked allocations proved wrap-free or rejecting for all 2^64 sizes; block layout (user bytes, guard bytes, accounting node inside the allocation, aligned, non-overlapping) proved for both layouts with symbolic sizes; NULL from the allocator leaves the table untouched.',
   note='trusted: allocator seam returns NULL or a fresh block of the requested size (NULL above 2^40); table summary contract (proved in C04); emitter rules'),
 'C13': dict(cat='proof', ref='DESIGN.md section 4, C13',
   text='the C-library-like primitives are proved equal to their textbook definition for all NUL-terminated strings in objects of any size up to 2^40 bytes (loop contracts, ghost index); object methods as listed in the evidence; buffer give-back undecided where temporaries occur (destructors are not lowered).',
   note='trusted: emitter rules; string allocator seam; ghost-index encoding of universals'),
}
NOT_APPLICABLE = {
 'C08': 'verdict exactness over all mock call histories: the mock engine is C++ object graphs with value-semantics temporaries and destructor-held ownership; CBMC cannot parse it, the C lowering stops at destructors, and no per-function contract implies the history-level iff',
 'C10': 'a property of thread schedules; CBMC contract instrumentation is sequential, the lock is an RAII destructor, and the lock-leak path is a longjmp, which CBMC does not model',
 'C16': 'well-formedness of the emitted XML is a grammar-membership property of printf-formatted text assembled from C++ string temporaries; no function contract states it and there is no XML judge in the verifier',
 'C19': 'a relational equivalence between two interfaces over all scenarios, both built on the C08 mock engine that is out of reach',
}
PENDING = 'contracts not yet written in this round (planned claim, see DESIGN.md section 4); not claimed until a check exists'

def main():
    props = [json.loads(l)['id'] for l in open(os.path.join(HERE, 'properties.jsonl'))]
    checks = []
    for pid in props:
        if pid in CLAIMS and os.path.exists(os.path.join(HERE, 'contracts', pid + '.spec')):
            c = CLAIMS[pid]
            checks.append({
                'property_id': pid,
                'quick_cmd': './check %s --tier quick' % pid,
                'thorough_cmd': './check %s --tier thorough' % pid,
                'evidence_file': 'evidence/%s.json' % pid,
                'replay_cmd_template': './check %s --replay {path}' % pid,
                'engine': 'cbmc-contracts',
                'level_claimed': {'category': c['cat'], 'text': c['text'], 'design_ref': c['ref']},
                'level_note': c['note'],
                'technique': TECH,
            })
    na = []
    for pid in props:
        if pid in NOT_APPLICABLE: na.append({'property_id': pid, 'reason': NOT_APPLICABLE[pid]})
        elif not any(c['property_id'] == pid for c in checks): na.append({'property_id': pid, 'reason': PENDING})
    m = {
        'version': 1,
        'setup_cmd': 'python3 -m compileall -q tools >/dev/null 2>&1; cbmc --version >/dev/null && goto-instrument --version >/dev/null && clang++ --version >/dev/null && kissat --version >/dev/null',
        'hooks': {'guard': 'CPPUTEST_VERIF', 'enable': 'none needed: verification reads /repo sources on every run, native replay #includes them; the guard name is reserved only',
                  'baseline_off_cmd': 'cmake -G Ninja -S /repo -B /repo/_build >/dev/null && (cmake --build /repo/_build -- -k 0 >/dev/null; true) && ctest --test-dir /repo/_build -j8 --timeout 900',
                  'source_commits': [], 'add_only': True},
        'engines': [{'name': 'cbmc-contracts', 'path': 'check', 'serves_properties': [c['property_id'] for c in checks],
                     'kind_free_text': 'contract-based deductive verification: clang-AST C++->C emitter (tools/cxx2c.py), contract specs (contracts/*.spec), goto-instrument --dfcc, cbmc 6.11 with kissat/z3/cvc5, native replay (replay/*.cpp)'}],
        'checks': checks,
        'notes': 'fix commits in /repo and known findings: known_findings.json; method: DESIGN.md; authoring guide: tools/HOWTO.md',
        'not_applicable': na,
    }
    json.dump(m, open(os.path.join(HERE, 'MANIFEST.json'), 'w'), indent=1)
    print('%d checks, %d not applicable/pending' % (len(checks), len(na)))

if __name__ == '__main__':
    main()
