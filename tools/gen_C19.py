#!/usr/bin/env python3
"""Generate contracts/C19.spec and contracts/C19_receiver.spec: forwarder wiring of src/CppUTestExt/MockSupport_c.cpp.

    python3 tools/gen_C19.py            writes both spec files (reads /repo's headers through the emitter)

WHERE THE EXPECTED MAPPING COMES FROM.  The field names and signatures of the three C function tables are read from
include/CppUTestExt/MockSupport_c.h (parsed below).  Each field name is turned into the C++ method it must reach by the naming
rules of the two interfaces (RULES below); the method must exist in MockExpectedCall.h / MockActualCall.h / MockSupport.h
(checked against the declarations clang sees).  Nothing is taken from the bodies of the forwarders: a forwarder that reaches
another overload, another getter, another receiver or passes other arguments fails its contract.  The only thing read off the
implementation is the NAME of the C function that sits in a table slot (glue: the `tables` check compares every slot with it).

   C table field                       C++ method that must be reached (terminal, typed virtual)
   with<T>Parameters(name, v)          with<T>Parameter(const SimpleString& name, <T> v)           through withParameter(name, <T>)
   withDoubleParametersAndTolerance    withDoubleParameter(name, value, tolerance)
   withMemoryBufferParameter           withMemoryBufferParameter(name, value, size)
   withParameterOfType ...             same name, same parameter names (type -> typeName, value -> value/output)
   andReturn<T>Value(v)                andReturnValue(<T> v)                                       the overload of exactly that type
   <t>ReturnValue()                    MockActualCall::return<T>Value()
   return<T>ValueOrDefault(d)          d exactly when hasReturnValue() is false, else return<T>Value()
   hasReturnValue / returnValue        same name; returnValue() is converted to the C tagged union
   set<T>Data(name, v)                 MockSupport::setData(const SimpleString& name, <T> v)
   everything else of MockSupport_c    MockSupport method of the same name
   slot k of a table                   the forwarder carrying the contract for the k-th field NAME of the header (proof tables.slots)
   <T>: Bool=bool (C int, nonzero is true)  Int=int  UnsignedInt=unsigned int  LongInt=long int  UnsignedLongInt=unsigned long int
        LongLongInt=cpputest_longlong  UnsignedLongLongInt=cpputest_ulonglong  Double=double  String=const char*  Pointer=void*
        ConstPointer=const void*  FunctionPointer=void (*)()

Sections of the generated C19.spec: ghost state; recording contracts (@stub) of every C++ method that may be reached; (1)+(2) one
enforced contract and one proof per entry point (the two entry points returning a function pointer as harness proofs: CBMC does not
attach contract clauses to that declarator form); (3) the conversion to the C tagged union on its own (also verified inside returnValue_c
and getData_c), type names compared by the REAL SimpleString::StrCmp on a symbolic 24-byte name; (4) mock_c / mock_scope_c, install*,
removeAll* (bounded), the comparator / copier adaptor nodes, the C-only failure reporter and its terminator; the table slots.
C19_receiver.spec: the three by-name expectations the shared forwarders do not meet (expected to fail; not part of ./check C19).
Emitter rules this spec needs (tools/cxx2c.py): R1b (void* vs void (*)() overloads named apart), R1c (prototype of a function returning
a function pointer), R11b (by-value return of a typedef'd C struct -> out-parameter), R14b (@define VERIF_TABLE_INITS: initialisers of
function tables).
"""
import sys, os, re
HERE = os.path.dirname(os.path.abspath(__file__))
sys.path.insert(0, HERE)
VERIFDIR = os.path.dirname(HERE)
TU = 'src/CppUTestExt/MockSupport_c.cpp'

# ------------------------------------------------------------------------------------------------ value kinds
# title -> (ghost suffix, ghost C type, emitter mangle of the C++ type, C type(s) the header must give the value)
KINDS = {
    'Bool':                ('bool',   '_Bool',              'bool',              ['int']),
    'Int':                 ('int',    'int',                'int',               ['int']),
    'UnsignedInt':         ('uint',   'unsigned int',       'uint',              ['unsigned int']),
    'LongInt':             ('long',   'long',               'long',              ['long int', 'long']),
    'UnsignedLongInt':     ('ulong',  'unsigned long',      'ulong',             ['unsigned long int', 'unsigned long']),
    'LongLongInt':         ('llong',  'cpputest_longlong',  'cpputestlonglong',  ['cpputest_longlong']),
    'UnsignedLongLongInt': ('ullong', 'cpputest_ulonglong', 'cpputestulonglong', ['cpputest_ulonglong']),
    'Double':              ('double', 'double',             'double',            ['double']),
    'String':              ('str',    'const char *',       'ccharP',            ['const char*', 'const char *']),
    'Pointer':             ('ptr',    'void *',             'voidP',             ['void*', 'void *']),
    'ConstPointer':        ('cptr',   'const void *',       'cvoidP',            ['const void*', 'const void *']),
    'FunctionPointer':     ('fptr',   'void (*)()',         'voidFP',            ['void (*)(void)']),
}
# other argument roles: role -> (ghost variable, C type)
ROLES = {
    'name':      ('g_name_text', 'const char *'),      # the text behind the SimpleString passed as name / functionName / mockName
    'type':      ('g_type_text', 'const char *'),      # the text behind the SimpleString passed as typeName / type
    'tolerance': ('g_arg_tolerance', 'double'),
    'size':      ('g_arg_size', 'size_t'),
    'buf':       ('g_arg_buf', 'const unsigned char *'),
    'amount':    ('g_arg_amount', 'unsigned int'),
    'node':      ('g_arg_node', 'const void *'),
    'reporter':  ('g_arg_reporter', 'const void *'),
}
for t, (sfx, cty, mg, hdr) in KINDS.items():
    ROLES[t] = ('g_arg_' + sfx, cty)

def decl_of(cty, name):
    if cty == 'void (*)()': return 'void (*%s)()' % name
    return '%s%s%s' % (cty, '' if cty.endswith('*') else ' ', name)

def same(role, a, b):
    """equality of a recorded argument with the expected value, exact to the bit for doubles"""
    if role in ('Double', 'tolerance'): return 'C19_SAME_DOUBLE(%s, %s)' % (a, b)
    return '%s == %s' % (a, b)

def lower1(s): return s[0].lower() + s[1:]

# ------------------------------------------------------------------------------------------------ the public C header
def parse_header(path):
    """{struct tag: [(field, return type text, [(ctype, pname)])]} of the three function tables"""
    txt = open(path).read()
    txt = re.sub(r'/\*.*?\*/', '', txt, flags=re.S)
    out = {}
    for m in re.finditer(r'struct\s+(SMock(?:ActualCall|ExpectedCall|Support)_c)\s*\{(.*?)\n\};', txt, re.S):
        tag, body = m.group(1), m.group(2)
        if tag == 'SMockValue_c': continue
        fields = []
        for line in body.split(';\n'):
            line = ' '.join(line.split())
            if not line: continue
            line = line.rstrip(';')
            fm = re.match(r'^void \(\*\(\*(\w+)\)\s*\((.*)\)\)\(void\)$', line)        # slot of a function returning void (*)(void)
            if fm:
                fields.append((fm.group(1), 'void (*)(void)', params(fm.group(2)))); continue
            fm = re.match(r'^(.*?)\s*\(\*\s*(\w+)\s*\)\s*\((.*)\)$', line)
            if not fm: raise SystemExit('MockSupport_c.h: cannot parse table slot: ' + line)
            fields.append((fm.group(2), fm.group(1).strip(), params(fm.group(3))))
        out[tag] = fields
    return out

def params(text):
    ps, depth, cur = [], 0, ''
    for ch in text:
        if ch == ',' and depth == 0: ps.append(cur.strip()); cur = ''
        else:
            depth += ch == '('; depth -= ch == ')'; cur += ch
    if cur.strip(): ps.append(cur.strip())
    res = []
    for p in ps:
        if p == 'void': continue
        m = re.match(r'^void\s*\(\*\s*(\w+)\)\s*\(void\)$', p)
        if m: res.append(('void (*)(void)', m.group(1))); continue
        m = re.match(r'^(.*?)(\w+)$', p)
        res.append((m.group(1).strip(), m.group(2)))
    return res

# ------------------------------------------------------------------------------------------------ the rules
class Fwd:
    """what one table slot must do"""
    def __init__(self, table, field, impl, ret, cparams):
        self.table, self.field, self.impl, self.ret, self.cparams = table, field, impl, ret, cparams
        self.callee = None        # C name of the C++ method that must be reached
        self.recv = None          # 'exp' | 'act' | 'sup': the object it must be reached on
        self.args = []            # [(role, expected C expression over the entry point's parameters)] in the C++ method's parameter order
        self.chain = None         # which static receives the method's result ('exp' | 'act')
        self.result = None        # expected return value: C expression, or ('getter', kind) / ('ordefault', kind) / 'union'
        self.skip = None          # reason the entry point is outside the extraction

def arg_for(kind, pname):
    return '(%s != 0)' % pname if kind == 'Bool' else pname

def check_ctype(f, pname, kind):
    got = dict((n, t) for t, n in f.cparams).get(pname)
    if got is None: raise SystemExit('%s.%s: parameter %s expected by its name, not in the header' % (f.table, f.field, pname))
    if got.replace(' *', '*') not in [h.replace(' *', '*') for h in KINDS[kind][3]]:
        raise SystemExit('%s.%s: header gives %s the type "%s", the name says %s' % (f.table, f.field, pname, got, KINDS[kind][3]))

def rule_expected(field, ret, cps):
    f = Fwd('MockExpectedCall_c', field, field + '_c', ret, cps)
    if field == 'withMemoryBufferParameter': f.impl = 'withMemoryBufferParameters_c'
    f.recv = 'exp'; f.chain = 'exp'; f.result = '&gExpectedCall'
    m = re.match(r'^with(\w+)Parameters$', field)
    if m and m.group(1) in KINDS:
        k = m.group(1); check_ctype(f, 'value', k)
        f.callee = 'MockExpectedCall_with%sParameter' % k + ('__2' if k == 'Double' else '')
        f.inline = ['MockExpectedCall_withParameter__cSimpleStringR_' + KINDS[k][2]]
        f.args = [('name', 'name'), (k, arg_for(k, 'value'))]
    elif field == 'withDoubleParametersAndTolerance':
        f.callee = 'MockExpectedCall_withDoubleParameter__3'; f.inline = ['MockExpectedCall_withParameter__cSimpleStringR_double_double']
        f.args = [('name', 'name'), ('Double', 'value'), ('tolerance', 'tolerance')]
    elif field == 'withMemoryBufferParameter':
        f.callee = 'MockExpectedCall_withMemoryBufferParameter'; f.inline = ['MockExpectedCall_withParameter__cSimpleStringR_cucharP_sizet']
        f.args = [('name', 'name'), ('buf', 'value'), ('size', 'size')]
    elif field in ('withParameterOfType', 'withOutputParameterOfTypeReturning'):
        f.callee = 'MockExpectedCall_' + field; f.args = [('type', 'type'), ('name', 'name'), ('ConstPointer', 'value')]
    elif field == 'withOutputParameterReturning':
        f.callee = 'MockExpectedCall_' + field; f.args = [('name', 'name'), ('ConstPointer', 'value'), ('size', 'size')]
    elif field == 'withUnmodifiedOutputParameter':
        f.callee = 'MockExpectedCall_' + field; f.args = [('name', 'name')]
    elif field == 'ignoreOtherParameters':
        f.callee = 'MockExpectedCall_' + field
    else:
        m = re.match(r'^andReturn(\w+)Value$', field)
        if not (m and m.group(1) in KINDS): raise SystemExit('MockExpectedCall_c.%s: no naming rule' % field)
        k = m.group(1); check_ctype(f, 'value', k)
        f.callee = 'MockExpectedCall_andReturnValue__' + KINDS[k][2]; f.args = [(k, arg_for(k, 'value'))]
    return f

def rule_actual(field, ret, cps):
    f = Fwd('MockActualCall_c', field, field + '_c', ret, cps)
    f.recv = 'act'
    m = re.match(r'^with(\w+)Parameters$', field)
    if m and m.group(1) in KINDS:
        k = m.group(1); check_ctype(f, 'value', k)
        f.impl = 'withActual%sParameters_c' % k; f.chain = 'act'; f.result = '&gActualCall'
        f.callee = 'MockActualCall_with%sParameter' % k
        f.inline = ['MockActualCall_withParameter__cSimpleStringR_' + KINDS[k][2]]
        f.args = [('name', 'name'), (k, arg_for(k, 'value'))]
    elif field == 'withMemoryBufferParameter':
        f.impl = 'withActualMemoryBufferParameters_c'; f.chain = 'act'; f.result = '&gActualCall'
        f.callee = 'MockActualCall_withMemoryBufferParameter'; f.inline = ['MockActualCall_withParameter__3']
        f.args = [('name', 'name'), ('buf', 'value'), ('size', 'size')]
    elif field == 'withParameterOfType':
        f.impl = 'withActualParameterOfType_c'; f.chain = 'act'; f.result = '&gActualCall'
        f.callee = 'MockActualCall_withParameterOfType'; f.args = [('type', 'type'), ('name', 'name'), ('ConstPointer', 'value')]
    elif field == 'withOutputParameter':
        f.impl = 'withActualOutputParameter_c'; f.chain = 'act'; f.result = '&gActualCall'
        f.callee = 'MockActualCall_withOutputParameter'; f.args = [('name', 'name'), ('Pointer', 'value')]
    elif field == 'withOutputParameterOfType':
        f.impl = 'withActualOutputParameterOfType_c'; f.chain = 'act'; f.result = '&gActualCall'
        f.callee = 'MockActualCall_withOutputParameterOfType'; f.args = [('type', 'type'), ('name', 'name'), ('Pointer', 'value')]
    elif field == 'hasReturnValue':
        f.callee = 'MockActualCall_hasReturnValue'; f.result = 'has'
    elif field == 'returnValue':
        f.callee = 'MockActualCall_returnValue'; f.result = 'union'
    else:
        m = re.match(r'^return(\w+)ValueOrDefault$', field)
        if m and m.group(1) in KINDS:
            k = m.group(1); check_ctype(f, 'defaultValue', k)
            f.callee = 'MockActualCall_return%sValue' % k; f.result = ('ordefault', k)
        else:
            m = re.match(r'^(\w+)ReturnValue$', field)
            k = m and (m.group(1)[0].upper() + m.group(1)[1:])
            if not (m and k in KINDS): raise SystemExit('MockActualCall_c.%s: no naming rule' % field)
            f.callee = 'MockActualCall_return%sValue' % k; f.result = ('getter', k)
    return f

def rule_support(field, ret, cps):
    f = Fwd('MockSupport_c', field, field + '_c', ret, cps)
    f.recv = 'sup'
    simple = ('strictOrder', 'disable', 'enable', 'ignoreOtherCalls', 'checkExpectations', 'clear')
    if field in simple:
        f.callee = 'MockSupport_' + field
    elif field == 'expectOneCall':
        f.callee = 'MockSupport_expectOneCall'; f.args = [('name', 'name')]; f.chain = 'exp'; f.result = '&gExpectedCall'
    elif field == 'expectNoCall':
        f.callee = 'MockSupport_expectNoCall'; f.args = [('name', 'name')]
    elif field == 'expectNCalls':
        f.callee = 'MockSupport_expectNCalls'; f.args = [('amount', 'number'), ('name', 'name')]; f.chain = 'exp'; f.result = '&gExpectedCall'
    elif field == 'actualCall':
        f.callee = 'MockSupport_actualCall'; f.args = [('name', 'name')]; f.chain = 'act'; f.result = '&gActualCall'
    elif field == 'hasReturnValue':
        f.callee = 'MockSupport_hasReturnValue'; f.result = 'has'
    elif field == 'expectedCallsLeft':
        f.callee = 'MockSupport_expectedCallsLeft'; f.result = 'left'
    elif field == 'crashOnFailure':
        f.callee = 'MockSupport_crashOnFailure'; f.args = [('Bool', '(shouldCrash != 0)')]
    elif field in ('setDataObject', 'setDataConstObject'):
        f.callee = 'MockSupport_' + field; f.args = [('name', 'name'), ('type', 'type'), ('Pointer' if field == 'setDataObject' else 'ConstPointer', 'value')]
    elif field == 'getData':
        f.callee = 'MockSupport_getData'; f.args = [('name', 'name')]; f.result = 'union'
    elif field in ('installComparator', 'installCopier', 'removeAllComparatorsAndCopiers'):
        f.callee = 'MockSupport_' + field; f.result = 'special'
    else:
        m = re.match(r'^set(\w+)Data$', field)
        if m and m.group(1) in KINDS:
            k = m.group(1); check_ctype(f, 'value', k)
            f.callee = 'MockSupport_setData__cSimpleStringR_' + KINDS[k][2]; f.args = [('name', 'name'), (k, arg_for(k, 'value'))]
        else:
            # the return-value slots of MockSupport_c are served by the MockActualCall_c forwarders (same C function in both tables)
            g = rule_actual(field, ret, cps)
            f.impl = g.impl; f.shared = g; f.callee = None; f.result = 'shared'
    return f

# ------------------------------------------------------------------------------------------------ conversion to the tagged union
# C++ type name (MockNamedValue::setValue / setMemoryBuffer, MockNamedValue.cpp) <-> enum tag <-> union member <-> typed getter:
# the tag, the member and the getter all carry the same type family in their names.
UNION = [
    ('bool',                   'MOCKVALUETYPE_BOOL',                       'boolValue',                'MockNamedValue_getBoolValue',                'Bool'),
    ('int',                    'MOCKVALUETYPE_INTEGER',                    'intValue',                 'MockNamedValue_getIntValue',                 'Int'),
    ('unsigned int',           'MOCKVALUETYPE_UNSIGNED_INTEGER',           'unsignedIntValue',         'MockNamedValue_getUnsignedIntValue',         'UnsignedInt'),
    ('long int',               'MOCKVALUETYPE_LONG_INTEGER',               'longIntValue',             'MockNamedValue_getLongIntValue',             'LongInt'),
    ('unsigned long int',      'MOCKVALUETYPE_UNSIGNED_LONG_INTEGER',      'unsignedLongIntValue',     'MockNamedValue_getUnsignedLongIntValue',     'UnsignedLongInt'),
    ('long long int',          'MOCKVALUETYPE_LONG_LONG_INTEGER',          'longLongIntValue',         'MockNamedValue_getLongLongIntValue',         'LongLongInt'),
    ('unsigned long long int', 'MOCKVALUETYPE_UNSIGNED_LONG_LONG_INTEGER', 'unsignedLongLongIntValue', 'MockNamedValue_getUnsignedLongLongIntValue', 'UnsignedLongLongInt'),
    ('double',                 'MOCKVALUETYPE_DOUBLE',                     'doubleValue',              'MockNamedValue_getDoubleValue',              'Double'),
    ('const char*',            'MOCKVALUETYPE_STRING',                     'stringValue',              'MockNamedValue_getStringValue',              'String'),
    ('void*',                  'MOCKVALUETYPE_POINTER',                    'pointerValue',             'MockNamedValue_getPointerValue',             'Pointer'),
    ('const void*',            'MOCKVALUETYPE_CONST_POINTER',              'constPointerValue',        'MockNamedValue_getConstPointerValue',        'ConstPointer'),
    ('void (*)()',             'MOCKVALUETYPE_FUNCTIONPOINTER',            'functionPointerValue',     'MockNamedValue_getFunctionPointerValue',     'FunctionPointer'),
    ('const unsigned char*',   'MOCKVALUETYPE_MEMORYBUFFER',               'memoryBufferValue',        'MockNamedValue_getMemoryBuffer',             'buf'),
    (None,                     'MOCKVALUETYPE_OBJECT',                     'objectValue',              'MockNamedValue_getObjectPointer',            'Pointer'),
]
TYPE_BUF = 24          # the 22 characters of "unsigned long long int", its terminator, one spare

def lit_is(i, s):
    return '(' + ' && '.join(['g_type_buf[%d] == %s' % (j, "'%s'" % ch) for j, ch in enumerate(s)] + ['g_type_buf[%d] == 0' % len(s)]) + ')'

# ------------------------------------------------------------------------------------------------ emitter access
def load_unit():
    import verif
    s = verif.Session()
    return s, s.unit(TU)

def proto(u, cn, manual={}):
    import cxx2c
    if cn in manual: return manual[cn]
    if cn not in u.fn: raise SystemExit('%s: the C++ headers declare no such method (naming rule broken?)' % cn)
    try:
        return u.proto(cn)
    except cxx2c.Unsupported as ex:
        raise SystemExit('prototype of %s: %s' % (cn, ex))

MANUAL_PROTOS = {
    # functions returning a function pointer: the emitter has no prototype rule; the declaration is written by hand
    # (through a typedef: CBMC does not attach contract clauses to the declarator form `void (*f(args))()`)
    'MockNamedValue_getFunctionPointerValue': 'c19_fptr_t MockNamedValue_getFunctionPointerValue(const struct MockNamedValue *self)',
    'MockActualCall_returnFunctionPointerValue': 'c19_fptr_t MockActualCall_returnFunctionPointerValue(struct MockActualCall *self)',
}

def split_proto_params(pr):
    mfp = re.match(r'^.*?\(\*\s*\w+\((.*)\)\)\s*\([^()]*\)$', pr)       # function returning a pointer to function
    if mfp: pr = 'x(' + mfp.group(1) + ')'
    depth = 0; groups = []; start = None
    for k, ch in enumerate(pr):
        if ch == '(':
            if depth == 0: start = k
            depth += 1
        elif ch == ')':
            depth -= 1
            if depth == 0: groups.append((start, k))
    s, e = groups[-1]
    ps, depth, cur = [], 0, ''
    for ch in pr[s + 1:e]:
        if ch == ',' and depth == 0: ps.append(cur.strip()); cur = ''
        else:
            depth += ch in '(['; depth -= ch in ')]'; cur += ch
    if cur.strip(): ps.append(cur.strip())
    return [p for p in ps if p != 'void']

def pname(p):
    m = re.search(r'\(\*\s*(\w+)\)', p)
    if m: return m.group(1)
    return re.search(r'(\w+)\s*(\[\d*\])*$', p).group(1)

# ------------------------------------------------------------------------------------------------ text pieces
RECV = {'exp': ('g_exp_cur', 'expectedCall', 'the current expected call'),
        'act': ('g_act_cur', 'actualCall', 'the current actual call'),
        'sup': ('g_sup_cur', 'currentMockSupport', 'the current MockSupport')}
NEXT = {'exp': 'g_exp_next', 'act': 'g_act_next'}
STATICS = ['expectedCall', 'actualCall', 'currentMockSupport']

def tag(cn): return 'M_' + cn

def ens_lines(e):
    """one ensures clause; a trailing /* comment */ goes on its own line above it"""
    if '      /*' in e:
        x, cmt = e.split('      /*', 1)
        return ['  /*' + cmt, '  __CPROVER_ensures(%s)' % x.rstrip()]
    return ['  __CPROVER_ensures(%s)' % e]

def gen():
    sess, u = load_unit()
    hdr = parse_header(os.path.join(os.environ.get('VERIF_REPO', '/repo'), 'include/CppUTestExt/MockSupport_c.h'))
    fw = []
    for fld, ret, cps in hdr['SMockExpectedCall_c']: fw.append(rule_expected(fld, ret, cps))
    for fld, ret, cps in hdr['SMockActualCall_c']: fw.append(rule_actual(fld, ret, cps))
    for fld, ret, cps in hdr['SMockSupport_c']: fw.append(rule_support(fld, ret, cps))
    # ---- the C++ methods that are reached: one recording contract each
    callees = {}          # cname -> [roles in parameter order], receiver, kind of result
    def need(cn, recv, roles, res):
        if cn in callees:
            if callees[cn] != (recv, roles, res): raise SystemExit('two rules disagree about ' + cn)
        callees[cn] = (recv, roles, res)
    for f in fw:
        g = getattr(f, 'shared', f)
        if g.callee is None or g.result == 'special' or g.skip: continue
        if g.result in ('has',):
            continue
        if isinstance(g.result, tuple):
            need(g.callee, 'act', [], ('value', g.result[1])); continue
        if g.result == 'union':
            need(g.callee, g.recv, [r for r, _ in g.args], 'namedvalue'); continue
        if g.result == 'left':
            need(g.callee, g.recv, [], 'left'); continue
        need(g.callee, g.recv, [r for r, _ in g.args], ('next', g.chain) if g.chain else None)
    tags = sorted(callees) + ['MockSupport_installComparator', 'MockSupport_installCopier', 'MockSupport_removeAllComparatorsAndCopiers', 'mock']
    out = []
    A = out.append
    A(HEAD)
    A('@tu ' + TU + '\n')
    # the three by-name expectations the shared forwarders do not meet: part of the check, matched against known_findings.json
    A('@import-proofs C19_receiver.spec receiver.MockActualCall_c.hasReturnValue receiver.MockActualCall_c.returnIntValueOrDefault receiver.MockSupport_c.intReturnValue\n')
    # ---- ghost state
    ghosts = ['g_calls', 'g_method', 'g_has_calls', 'g_has_on', 'g_ss_calls', 'g_ss1', 'g_ss2', 'g_ss1_text', 'g_ss2_text', 'g_nv_cur', 'g_type_ss',
              'g_get_calls', 'g_getter']
    d = ['@decl', 'typedef void (*c19_fptr_t)();', '/* ---- C19 ghost state: which C++ method was reached, on which object, with which arguments ---- */',
         'enum c19_method { M_NONE = 0,']
    d += ['  %s,' % tag(c) for c in tags]
    d += ['  M_LAST };', 'enum c19_getter { G_NONE = 0,'] + ['  G_%s,' % g[3] for g in UNION] + ['  G_LAST };']
    d += ['unsigned g_calls;                     /* C++ methods reached (typed forwarding targets) */',
          'int g_method;                         /* ... which one */',
          'unsigned g_has_calls; int g_has_on;   /* hasReturnValue() questions asked, and of whom: 1 = the MockSupport, 2 = the actual call */',
          'struct MockExpectedCall *g_exp_cur, *g_exp_next;   /* the current expected call at entry; what the C++ method hands back (fluent interface) */',
          'struct MockActualCall *g_act_cur, *g_act_next;',
          'struct MockSupport *g_sup_cur, *g_sup_next;',
          '/* SimpleString temporaries built from the C strings (at most two per entry point): which text each one carries */',
          'unsigned g_ss_calls; const struct SimpleString *g_ss1, *g_ss2; const char *g_ss1_text, *g_ss2_text;',
          '#define C19_TEXT_OF(p) ((const struct SimpleString *)(p) == g_ss1 ? g_ss1_text : ((const struct SimpleString *)(p) == g_ss2 ? g_ss2_text : (const char *)0))',
          '/* equal doubles, to the bit as far as C can tell (NaN payloads aside) */',
          '#define C19_SAME_DOUBLE(a, b) ((__CPROVER_isnand(a) && __CPROVER_isnand(b)) || ((a) == (b) && __CPROVER_signd(a) == __CPROVER_signd(b)))',
          '/* arguments as the C++ method received them */']
    seen = set()
    for role, (gv, cty) in sorted(ROLES.items()):
        if gv in seen: continue
        seen.add(gv); d.append(decl_of(cty, gv) + ';'); ghosts.append(gv)
    d.append('/* what the typed getters of the actual call answer (one ghost per type: a getter of another type answers another value) */')
    for k, (sfx, cty, mg, h) in KINDS.items():
        d.append(decl_of(cty, 'g_ret_' + sfx) + ';')
    d += ['int g_ret_left;                        /* MockSupport::expectedCallsLeft() */',
          '_Bool g_act_has, g_sup_has;            /* hasReturnValue() as answered by the actual call / by the MockSupport */',
          '/* the MockNamedValue under conversion, the text of its type name, what each of its typed getters answers */',
          'const struct MockNamedValue *g_nv_cur; const struct SimpleString *g_type_ss; char g_type_buf[%d];' % TYPE_BUF,
          'unsigned g_get_calls; int g_getter;']
    for k, (sfx, cty, mg, h) in KINDS.items():
        d.append(decl_of(cty, 'g_nv_' + sfx) + ';')
    d += ['const unsigned char *g_nv_buf; void *g_nv_obj;']
    for i, (s, tg, mem, getter, kind) in enumerate(UNION):
        if s is not None: d.append('#define C19_TYPE_IS_%d %s   /* "%s" */' % (i, lit_is(i, s), s))
    d.append('#define C19_TYPE_IS_BUILTIN (' + ' || '.join('C19_TYPE_IS_%d' % i for i, g in enumerate(UNION) if g[0] is not None) + ')')
    d += ['/* START: nothing reached yet.  The three statics hold the current objects. */',
          '#define C19_START (g_calls == 0 && g_has_calls == 0 && g_ss_calls == 0 && g_get_calls == 0 && g_method == M_NONE && g_getter == G_NONE && g_has_on == 0 && expectedCall == g_exp_cur && actualCall == g_act_cur && currentMockSupport == g_sup_cur)',
          '/* COHERENT: the current actual call is the last actual call of the current MockSupport, so MockSupport::hasReturnValue()',
          '   (= lastActualFunctionCall_->hasReturnValue()) and the actual call\'s own hasReturnValue() agree.  NOT established by the',
          '   forwarders: see C19.undecided.txt and C19_receiver.spec */',
          '#define C19_COHERENT ((g_act_has != 0) == (g_sup_has != 0))',
          '#define C19_GHOSTS ' + ', '.join(ghosts),
          '@end\n']
    A('\n'.join(d))
    # ---- SimpleString temporaries, type-name plumbing (bodies: they sequence)
    A(SS_STUBS)
    # ---- recording contracts of the C++ methods
    A('# ---- the C++ methods (virtual: the call is lowered to the function named after the static type and overload, R3).  Each contract\n'
      '# records which method was reached and its arguments, requires that it is reached on the current object, and answers the ghost\n'
      '# "next" reference / value.')
    for cn in sorted(callees):
        recv, roles, res = callees[cn]
        pr = proto(u, cn, MANUAL_PROTOS)
        ps = split_proto_params(pr)
        names = [pname(p) for p in ps]
        i0 = 0
        if res == 'namedvalue': i0 = 1          # verif_ret first
        selfname = names[i0]
        if selfname != 'self': raise SystemExit(cn + ': no receiver?')
        argn = names[i0 + 1:]
        if len(argn) != len(roles): raise SystemExit('%s: the C++ method has parameters %s, the rule expects roles %s' % (cn, argn, roles))
        cur, static, what = RECV[recv]
        assigns = ['g_calls', 'g_method']; ens = ['g_calls == 1 && g_method == ' + tag(cn)]
        for r, a in zip(roles, argn):
            gv, cty = ROLES[r]
            assigns.append(gv)
            if r in ('name', 'type'): ens.append('%s == C19_TEXT_OF(%s)' % (gv, a))
            elif r == 'Bool': ens.append('%s == (%s != 0)' % (gv, a))
            else: ens.append(same(r, gv, a))
        lines = ['@stub ' + cn, pr,
                 '  __CPROVER_requires(self == %s)      /* reached on %s */' % (cur, what),
                 '  __CPROVER_requires(g_calls == 0)          /* the only C++ method the entry point reaches */']
        post = []
        if isinstance(res, tuple) and res[0] == 'next':
            post.append('__CPROVER_return_value == ' + NEXT[res[1]])
        elif isinstance(res, tuple) and res[0] == 'value':
            k = res[1]; gv = 'g_ret_' + KINDS[k][0]
            if k == 'Bool': post.append('__CPROVER_return_value == (%s != 0)' % gv)
            else: post.append(same(k, '__CPROVER_return_value', gv))
        elif res == 'left':
            post.append('__CPROVER_return_value == (g_ret_left != 0)')
        elif res == 'namedvalue':
            assigns.append('g_nv_cur'); post.append('__CPROVER_return_value == verif_ret && g_nv_cur == verif_ret')
        lines.append('  __CPROVER_assigns(%s)' % ', '.join(assigns))
        for e in ens: lines.append('  __CPROVER_ensures(%s)' % e)
        for e in post: lines.append('  __CPROVER_ensures(%s)' % e)
        lines[-1] += ';'
        lines.append('@end')
        A('\n'.join(lines))
    A(HAS_STUBS)
    A(conv_stubs(u))
    # ---- the entry points
    proofs = []; undecided = []; table_rows = []
    done = set()
    A('\n# ================================================================ (1) the forwarders, one enforced contract per entry point')
    for f in fw:
        table_rows.append((f.table, f.field, f.impl))
        g = getattr(f, 'shared', None)
        if g is not None: continue            # served by the MockActualCall_c forwarder of the same name
        if f.table == 'MockActualCall_c' and f.field == 'hasReturnValue':
            continue      # the same C function serves MockSupport_c.hasReturnValue: contract stated there, this role in C19_receiver.spec
        if f.impl in done: continue
        if f.skip:
            undecided.append('%s.%s (%s): %s' % (f.table, f.field, f.impl, f.skip)); continue
        if f.result == 'special': continue
        done.add(f.impl)
        pr = proto(u, f.impl)
        pnames = [pname(p) for p in split_proto_params(pr)]
        hnames = [n for t, n in f.cparams]
        if f.result == 'union': hnames = ['verif_ret'] + hnames
        if pnames != hnames: raise SystemExit('%s: parameters %s, header says %s' % (f.impl, pnames, hnames))
        c = ['@function ' + f.impl, '@contract', '  __CPROVER_requires(C19_START)']
        assigns = ['C19_GHOSTS']
        ens = []
        cur, static, what = RECV[f.recv]
        body = [] ; replace = []
        if isinstance(f.result, tuple) and f.result[0] == 'getter':
            k = f.result[1]; gv = 'g_ret_' + KINDS[k][0]
            ens.append('g_calls == 1 && g_method == %s' % tag(f.callee))
            ens.append(('__CPROVER_return_value == ((%s != 0) ? 1 : 0)' % gv) if k == 'Bool' else same(k, '__CPROVER_return_value', gv))
            ens.append('g_has_calls == 0')
        elif isinstance(f.result, tuple) and f.result[0] == 'ordefault':
            k = f.result[1]; gv = 'g_ret_' + KINDS[k][0]
            c.append('  __CPROVER_requires(C19_COHERENT)')
            ens.append('g_has_calls == 1')
            val = ('((%s != 0) ? 1 : 0)' % gv) if k == 'Bool' else gv
            ens.append('(g_act_has != 0) ==> (g_calls == 1 && g_method == %s && %s)' % (tag(f.callee), same(k, '__CPROVER_return_value', val)))
            ens.append('(g_act_has == 0) ==> (g_calls == 0 && %s)      /* the typed getter is not even asked: it would fail the test on a missing value */' % same(k, '__CPROVER_return_value', 'defaultValue'))
            body = ['hasReturnValue_c', lower1(k) + 'ReturnValue_c']
        elif f.result == 'has':
            ens.append('g_has_calls == 1 && g_calls == 0')
            ens.append('__CPROVER_return_value == ((%s != 0) ? 1 : 0)' % ('g_sup_has' if f.recv == 'sup' else 'g_act_has'))
            ens.append('g_has_on == %d' % (1 if f.recv == 'sup' else 2))
        elif f.result == 'left':
            ens.append('g_calls == 1 && g_method == %s' % tag(f.callee))
            ens.append('__CPROVER_return_value == ((g_ret_left != 0) ? 1 : 0)')
        elif f.result == 'union':
            c.append('  __CPROVER_requires(__CPROVER_is_fresh(verif_ret, sizeof(*verif_ret)) && g_type_buf[%d] == 0)' % (TYPE_BUF - 1))
            assigns.append('*verif_ret')
            ens.append('g_calls == 1 && g_method == %s' % tag(f.callee))
            ens.append('__CPROVER_return_value == verif_ret')
            ens += union_ensures()
            body = ['getMockValueCFromNamedValue', 'SimpleString_StrCmp@src/CppUTest/SimpleString.cpp']
        else:
            ens.append('g_calls == 1 && g_method == %s' % tag(f.callee))
            if f.result: ens.append('__CPROVER_return_value == ' + f.result)
        if f.table == 'MockSupport_c' and f.field == 'hasReturnValue':
            pass
        for r, ex in f.args:
            gv, cty = ROLES[r]
            ens.append(same(r, gv, ex))
        if f.chain:
            assigns.append(RECV[f.chain][1])
            ens.append('%s == %s      /* chained: the next entry point continues on what the C++ method returned */' % (RECV[f.chain][1], NEXT[f.chain]))
        for s_ in STATICS:
            if not f.chain or s_ != RECV[f.chain][1]: ens.append('%s == __CPROVER_old(%s)' % (s_, s_))
        fp_form = isinstance(f.result, tuple) and f.result[1] == 'FunctionPointer'
        if fp_form:
            # CBMC does not attach contract clauses to the declarator form `void (*f(args))()`: same statement as a harness
            # (preconditions assumed, postconditions asserted around the real body)
            h = ['void verif_harness(void)', '{']
            for t_, n_ in f.cparams: h.append('  void (*%s)();' % n_)
            h.append('  __CPROVER_assume(C19_START%s);' % (' && C19_COHERENT' if f.result[0] == 'ordefault' else ''))
            for s_ in STATICS: h.append('  void *old_%s = (void *)%s;' % (s_, s_))
            h.append('  void (*r)() = %s(%s);' % (f.impl, ', '.join(n_ for t_, n_ in f.cparams)))
            for e in ens:
                e2 = re.sub(r'__CPROVER_old\((\w+)\)', r'old_\1', e.split('      /*')[0]).replace('__CPROVER_return_value', 'r')
                e2 = re.sub(r'\b(\w+) == old_\1', r'(void *)\1 == old_\1', e2)
                h.append('  __CPROVER_assert(%s, "%s");' % (e2, e2.replace('"', "'")))
            h += ['  VERIF_CANARY', '}']
            p = ['@proof fwd.' + f.impl[:-2], '@object-bits 10', '@body ' + ' '.join([f.impl] + body), '@harness'] + h + ['@end']
            proofs.append('\n'.join(p)); continue
        c.append('  __CPROVER_assigns(%s)' % ', '.join(assigns))
        for e in ens: c += ens_lines(e)
        c.append('@end')
        A('\n'.join(c))
        p = ['@proof fwd.' + f.impl[:-2], '@object-bits 10', '@enforce ' + f.impl]
        body = body + getattr(f, 'inline', [])
        if body: p.append('@body ' + ' '.join(body))
        if f.result == 'union':
            p += ['@unwindset SimpleString_StrCmp.0:%d' % TYPE_BUF, '@complete-unwind the type name is compared with 13 literals of at most 22 characters: the comparison loop ends at the literal\'s terminator at the latest']
        rp = replay_of(f)
        if rp: p.append('@replay C19_forwarders ' + rp)
        p.append('@end')
        proofs.append('\n'.join(p))
    A('\n'.join(proofs))
    shared = [f for f in fw if getattr(f, 'shared', None) is not None]
    A('\n# ---- slots of MockSupport_c that hold a forwarder of MockActualCall_c (one C function, two tables): the contract above is the one\n'
      '# derived from the MockActualCall_c name; for the MockSupport_c name (MockSupport::<same name>() of the current MockSupport) it says\n'
      '# the same only under C19_COHERENT plus engine facts - undecided here, refuted in general (C19.undecided.txt, C19_receiver.spec):\n'
      + '\n'.join('#   MockSupport_c.%-42s %s' % (f.field, f.impl) for f in shared) +
      '\n#   MockActualCall_c.%-40s %s   (asks the MockSupport; contract stated for MockSupport_c.hasReturnValue)' % ('hasReturnValue', 'hasReturnValue_c'))
    A(CONV_SECTION % dict(buf=TYPE_BUF - 1, ens='\n'.join(l for e in union_ensures() for l in ens_lines(e)), n=TYPE_BUF))
    A(EXTRA_SECTION)
    A(tables_section(table_rows))
    open(os.path.join(VERIFDIR, 'contracts', 'C19.spec'), 'w').write('\n'.join(out) + '\n')
    open(os.path.join(VERIFDIR, 'contracts', 'C19_receiver.spec'), 'w').write(receiver_spec(out))
    print('wrote contracts/C19.spec (%d forwarder proofs) and contracts/C19_receiver.spec' % len(proofs))
    for l in undecided: print('undecided: ' + l)

REPLAYABLE = set(['Bool', 'Int', 'UnsignedInt', 'LongInt', 'UnsignedLongInt', 'LongLongInt', 'UnsignedLongLongInt', 'Double', 'String', 'Pointer', 'ConstPointer'])
def replay_of(f):
    """entry points the native driver can run through both interfaces"""
    if f.table == 'MockExpectedCall_c':
        m = re.match(r'^with(\w+)Parameters$', f.field) or re.match(r'^andReturn(\w+)Value$', f.field)
        if m and m.group(1) in REPLAYABLE: return f.field
    if f.table == 'MockActualCall_c':
        m = re.match(r'^with(\w+)Parameters$', f.field) or re.match(r'^(\w+)ReturnValue$', f.field) or re.match(r'^return(\w+)ValueOrDefault$', f.field)
        if m and (m.group(1)[0].upper() + m.group(1)[1:]) in REPLAYABLE: return 'actual.' + f.field
        if f.field == 'returnValue': return 'actual.returnValue'
    if f.table == 'MockSupport_c':
        m = re.match(r'^set(\w+)Data$', f.field)
        if m and m.group(1) in REPLAYABLE: return f.field
    return None

def union_ensures():
    e = ['g_get_calls == 1      /* exactly one typed getter is asked: a second one of another type would fail the test */']
    for i, (s, tg, mem, getter, kind) in enumerate(UNION):
        cond = 'C19_TYPE_IS_%d' % i if s is not None else '!C19_TYPE_IS_BUILTIN'
        gv = {'buf': 'g_nv_buf'}.get(kind, 'g_nv_' + KINDS.get(kind, ('',))[0])
        if s is None: gv = 'g_nv_obj'
        if kind == 'Bool': val = 'verif_ret->value.%s == ((%s != 0) ? 1 : 0)' % (mem, gv)
        elif kind == 'Double': val = 'C19_SAME_DOUBLE(verif_ret->value.%s, %s)' % (mem, gv)
        else: val = 'verif_ret->value.%s == %s' % (mem, gv)
        e.append('%s ==> (verif_ret->type == %s && g_getter == G_%s && %s)' % (cond, tg, getter, val))
    return e

def conv_stubs(u):
    o = ['# ---- the typed getters of the MockNamedValue under conversion: each answers its own ghost']
    for i, (s, tg, mem, getter, kind) in enumerate(UNION):
        pr = proto(u, getter, MANUAL_PROTOS)
        gv = {'buf': 'g_nv_buf'}.get(kind, 'g_nv_' + KINDS.get(kind, ('',))[0])
        if s is None: gv = 'g_nv_obj'
        if kind == 'Bool': post = '__CPROVER_return_value == (%s != 0)' % gv
        elif kind == 'Double': post = 'C19_SAME_DOUBLE(__CPROVER_return_value, %s)' % gv
        else: post = '__CPROVER_return_value == ' + gv
        o += ['@stub ' + getter, pr,
              '  __CPROVER_requires(self == g_nv_cur)      /* the value under conversion */',
              '  __CPROVER_requires(g_get_calls == 0)',
              '  __CPROVER_assigns(g_get_calls, g_getter)',
              '  __CPROVER_ensures(g_get_calls == 1 && g_getter == G_%s)' % getter,
              '  __CPROVER_ensures(%s);' % post, '@end']
    return '\n'.join(o)

def tables_section(rows):
    var = {'MockExpectedCall_c': 'gExpectedCall', 'MockActualCall_c': 'gActualCall', 'MockSupport_c': 'gMockSupport'}
    o = ['', '# ================================================================ the three tables: every slot holds the forwarder that carries the',
         '# contract derived from the slot\'s NAME (fields in the order of MockSupport_c.h; a positional initialiser that drifts from the',
         '# header order, or two same-signature entries swapped - disable/enable, setBoolData/setIntData - fails here).  Emitter rule R14b',
         '# emits the real initialisers; statics keep their initial values in this proof.',
         '@proof tables.slots', '@define VERIF_TABLE_INITS', '@nondet-static off', '@harness', 'void verif_harness(void)', '{']
    for table, field, impl in rows:
        o.append('  __CPROVER_assert(%s.%s == %s, "%s.%s is %s");' % (var[table], field, impl, table, field, impl))
    o += ['  VERIF_CANARY', '}', '@end']
    return '\n'.join(o)

def receiver_spec(out):
    return RECEIVER

RECEIVER = r"""# C19_receiver: the three by-name expectations that the shared forwarders of MockSupport_c.cpp do NOT meet.  GENERATED by
# tools/gen_C19.py.  Imported into `./check C19`; every proof here FAILS on the current tree and is matched against the open entry of
# known_findings.json (KNOWN-FINDING line, exit 0); any other failing obligation is a VIOLATION.  They document one finding, see contracts/C19.undecided.txt and replay/C19_forwarders.cpp (receiver):
#
#   hasReturnValue_c, <t>ReturnValue_c and return<T>ValueOrDefault_c each sit in BOTH tables (MockActualCall_c and MockSupport_c), but
#   each consults one fixed object: hasReturnValue_c always asks the MockSupport selected LAST by mock_c()/mock_scope_c(), the typed
#   getters always ask the static "current actual call" (the LAST actual call made through the C interface, in whatever scope).
#   By their names the MockActualCall_c slots must ask the actual call (MockActualCall::hasReturnValue, ...OrDefault) and the
#   MockSupport_c slots must ask the MockSupport (MockSupport::intReturnValue(), ...).  The two coincide only while the current
#   actual call is the last actual call of the current MockSupport (C19_COHERENT in C19.spec).
@tu src/CppUTestExt/MockSupport_c.cpp
@use C19.spec

@proof receiver.MockActualCall_c.hasReturnValue
@object-bits 10
@body hasReturnValue_c
@replay C19_forwarders receiver
@harness
void verif_harness(void)
{
  __CPROVER_assume(C19_START);
  int r = hasReturnValue_c();
  __CPROVER_assert(g_has_on == 2, "MockActualCall_c.hasReturnValue asks the current actual call (MockActualCall::hasReturnValue)");
  __CPROVER_assert(r == ((g_act_has != 0) ? 1 : 0), "... and answers what the actual call answers");
  VERIF_CANARY
}
@end

@proof receiver.MockActualCall_c.returnIntValueOrDefault
@object-bits 10
@body returnIntValueOrDefault_c hasReturnValue_c intReturnValue_c
@replay C19_forwarders receiver
@harness
void verif_harness(void)
{
  int defaultValue;
  __CPROVER_assume(C19_START);           /* no coherence assumed */
  int r = returnIntValueOrDefault_c(defaultValue);
  __CPROVER_assert((g_act_has == 0) ==> (r == defaultValue && g_calls == 0), "the default exactly when the ACTUAL CALL has no return value");
  __CPROVER_assert((g_act_has != 0) ==> (r == g_ret_int && g_calls == 1), "the typed getter of the actual call otherwise");
  VERIF_CANARY
}
@end

@proof receiver.MockSupport_c.intReturnValue
@object-bits 10
@body intReturnValue_c
@replay C19_forwarders receiver
@harness
void verif_harness(void)
{
  __CPROVER_assume(C19_START);
  int r = intReturnValue_c();
  __CPROVER_assert(g_method != M_MockActualCall_returnIntValue, "MockSupport_c.intReturnValue reaches MockSupport::intReturnValue() of the current MockSupport, not the static actual call");
  VERIF_CANARY
}
@end
"""

HEAD = '''# C19 (partial claim): forwarder wiring of the C mocking interface.   GENERATED by tools/gen_C19.py - edit the generator.
#
# The mock ENGINE (matching, failure text, output bytes: C08) is out of reach of per-function contracts.  What the property's own
# "why tests can't" paragraph names is within reach: "a forwarder wired to the wrong type, getter or default is visible only when
# the value does not survive the wrong conversion".  Every entry point of src/CppUTestExt/MockSupport_c.cpp is a one-line
# forwarder; its contract says which C++ method it must reach (derived from the NAMES in MockSupport_c.h and the C++ headers,
# see the generator), on which object, with which arguments (unchanged, full width), which of the three static "current object"
# pointers continues the chain, and which table pointer comes back.
'''

SS_STUBS = '''# ---- SimpleString(const char*) temporaries (R10): remember which text each temporary carries
@stub SimpleString_ctor__ccharP
struct SimpleString *SimpleString_ctor__ccharP(struct SimpleString *self, const char *value)
{
  __CPROVER_assert(g_ss_calls < 2, "at most two strings are wrapped per entry point");
  if (g_ss_calls == 0) { g_ss1 = self; g_ss1_text = value; } else { g_ss2 = self; g_ss2_text = value; }
  g_ss_calls++;
  return self;
}
@end
# ---- the type name of the value under conversion: getType() hands out a SimpleString, asCharString() its text
@stub MockNamedValue_getType
struct SimpleString *MockNamedValue_getType(struct SimpleString *verif_ret, const struct MockNamedValue *self)
{
  __CPROVER_assert(self == g_nv_cur, "the type asked is the type of the value under conversion");
  g_type_ss = verif_ret;
  return verif_ret;
}
@end
@stub SimpleString_asCharString
const char *SimpleString_asCharString(const struct SimpleString *self)
{
  __CPROVER_assert(self == g_type_ss, "the text compared is the type name just obtained");
  return g_type_buf;
}
@end
'''

HAS_STUBS = '''# ---- hasReturnValue(): asked of the MockSupport or of the actual call (two different objects, two answers)
@stub MockSupport_hasReturnValue
_Bool MockSupport_hasReturnValue(struct MockSupport *self)
  __CPROVER_requires(self == g_sup_cur)
  __CPROVER_assigns(g_has_calls, g_has_on)
  __CPROVER_ensures(g_has_calls == __CPROVER_old(g_has_calls) + 1 && g_has_on == 1)
  __CPROVER_ensures(__CPROVER_return_value == (g_sup_has != 0));
@end
@stub MockActualCall_hasReturnValue
_Bool MockActualCall_hasReturnValue(struct MockActualCall *self)
  __CPROVER_requires(self == g_act_cur)
  __CPROVER_assigns(g_has_calls, g_has_on)
  __CPROVER_ensures(g_has_calls == __CPROVER_old(g_has_calls) + 1 && g_has_on == 2)
  __CPROVER_ensures(__CPROVER_return_value == (g_act_has != 0));
@end
'''

CONV_SECTION = '''
# ================================================================ (3) conversion to the C tagged union, on its own
@function getMockValueCFromNamedValue
@contract
  __CPROVER_requires(__CPROVER_is_fresh(verif_ret, sizeof(*verif_ret)) && g_type_buf[%(buf)d] == 0)
  __CPROVER_requires(namedValue == g_nv_cur && g_get_calls == 0 && g_getter == G_NONE)
  __CPROVER_assigns(*verif_ret, g_get_calls, g_getter, g_type_ss)
  __CPROVER_ensures(__CPROVER_return_value == verif_ret)
%(ens)s
@end
@proof convert.getMockValueCFromNamedValue
@object-bits 10
@enforce getMockValueCFromNamedValue
@body SimpleString_StrCmp@src/CppUTest/SimpleString.cpp
@unwindset SimpleString_StrCmp.0:%(n)d
@complete-unwind the type name is compared with 13 literals of at most 22 characters: the comparison loop ends at the literal's terminator at the latest
@end
'''

EXTRA_SECTION = r'''
# ================================================================ (4) the rest of MockSupport_c.cpp
# ---- mock_c / mock_scope_c: select the MockSupport (global scope = the empty name) with the C-only failure reporter
@stub mock
MockSupport *mock(const SimpleString *mockName, MockFailureReporter *failureReporterForThisCall)
  __CPROVER_requires(g_calls == 0)
  __CPROVER_assigns(g_calls, g_method, g_name_text, g_arg_reporter)
  __CPROVER_ensures(g_calls == 1 && g_method == M_mock && g_name_text == C19_TEXT_OF(mockName) && g_arg_reporter == (const void *)failureReporterForThisCall)
  __CPROVER_ensures(__CPROVER_return_value == g_sup_next);
@end
@function mock_c
@contract
  __CPROVER_requires(C19_START)
  __CPROVER_assigns(C19_GHOSTS, currentMockSupport)
  __CPROVER_ensures(g_calls == 1 && g_method == M_mock)
  /* the global MockSupport: mock("") */
  __CPROVER_ensures(g_name_text == g_ss1_text && g_ss1_text != (const char *)0 && g_ss1_text[0] == 0)
  /* failures of C-only code leave through the reporter whose terminator does not throw */
  __CPROVER_ensures(g_arg_reporter == (const void *)&failureReporterForC)
  __CPROVER_ensures(currentMockSupport == g_sup_next)
  __CPROVER_ensures(expectedCall == __CPROVER_old(expectedCall) && actualCall == __CPROVER_old(actualCall))
  __CPROVER_ensures(__CPROVER_return_value == &gMockSupport)
@end
@function mock_scope_c
@contract
  __CPROVER_requires(C19_START)
  __CPROVER_assigns(C19_GHOSTS, currentMockSupport)
  __CPROVER_ensures(g_calls == 1 && g_method == M_mock)
  __CPROVER_ensures(g_name_text == scope)
  __CPROVER_ensures(g_arg_reporter == (const void *)&failureReporterForC)
  __CPROVER_ensures(currentMockSupport == g_sup_next)
  __CPROVER_ensures(expectedCall == __CPROVER_old(expectedCall) && actualCall == __CPROVER_old(actualCall))
  __CPROVER_ensures(__CPROVER_return_value == &gMockSupport)
@end
@proof fwd.mock_c
@object-bits 10
@enforce mock_c
@end
@proof fwd.mock_scope_c
@object-bits 10
@enforce mock_scope_c
@end

# ---- installComparator / installCopier: a new adaptor node wrapping the C functions heads the list and is what MockSupport gets
@decl
struct MockCFunctionComparatorNode g_node_cmp; struct MockCFunctionCopierNode g_node_cpy;   /* what operator new hands out */
unsigned g_new_calls;
@end
@stub MockSupport_installComparator
void MockSupport_installComparator(struct MockSupport *self, const SimpleString *typeName, MockNamedValueComparator *comparator)
  __CPROVER_requires(self == g_sup_cur)
  __CPROVER_requires(g_calls == 0)
  __CPROVER_assigns(g_calls, g_method, g_type_text, g_arg_node)
  __CPROVER_ensures(g_calls == 1 && g_method == M_MockSupport_installComparator && g_type_text == C19_TEXT_OF(typeName) && g_arg_node == (const void *)comparator);
@end
@stub MockSupport_installCopier
void MockSupport_installCopier(struct MockSupport *self, const SimpleString *typeName, MockNamedValueCopier *copier)
  __CPROVER_requires(self == g_sup_cur)
  __CPROVER_requires(g_calls == 0)
  __CPROVER_assigns(g_calls, g_method, g_type_text, g_arg_node)
  __CPROVER_ensures(g_calls == 1 && g_method == M_MockSupport_installCopier && g_type_text == C19_TEXT_OF(typeName) && g_arg_node == (const void *)copier);
@end
@function installComparator_c
@contract
  __CPROVER_requires(C19_START && g_new_calls == 0)
  __CPROVER_assigns(C19_GHOSTS, g_new_calls, comparatorList_, __CPROVER_object_whole(&g_node_cmp))
  __CPROVER_ensures(g_calls == 1 && g_method == M_MockSupport_installComparator && g_new_calls == 1)
  __CPROVER_ensures(g_type_text == typeName)
  /* the new node is what MockSupport::installComparator receives, and it heads the list of nodes to be released later */
  __CPROVER_ensures(g_arg_node == (const void *)&g_node_cmp && comparatorList_ == &g_node_cmp)
  __CPROVER_ensures(g_node_cmp.next_ == __CPROVER_old(comparatorList_) && g_node_cmp.equal_ == isEqual && g_node_cmp.toString_ == valueToString)
  __CPROVER_ensures(expectedCall == __CPROVER_old(expectedCall) && actualCall == __CPROVER_old(actualCall) && currentMockSupport == __CPROVER_old(currentMockSupport))
@end
@function installCopier_c
@contract
  __CPROVER_requires(C19_START && g_new_calls == 0)
  __CPROVER_assigns(C19_GHOSTS, g_new_calls, copierList_, __CPROVER_object_whole(&g_node_cpy))
  __CPROVER_ensures(g_calls == 1 && g_method == M_MockSupport_installCopier && g_new_calls == 1)
  __CPROVER_ensures(g_type_text == typeName)
  __CPROVER_ensures(g_arg_node == (const void *)&g_node_cpy && copierList_ == &g_node_cpy)
  __CPROVER_ensures(g_node_cpy.next_ == __CPROVER_old(copierList_) && g_node_cpy.copier_ == copier)
  __CPROVER_ensures(expectedCall == __CPROVER_old(expectedCall) && actualCall == __CPROVER_old(actualCall) && currentMockSupport == __CPROVER_old(currentMockSupport))
@end
@proof fwd.installComparator
@object-bits 10
@enforce installComparator_c
@body MockCFunctionComparatorNode_ctor MockNamedValueComparator_ctor
@extra
void *VERIF_operator_new(size_t size)
{
  __CPROVER_assert(size == sizeof(struct MockCFunctionComparatorNode), "one comparator node is allocated");
  g_new_calls++;
  return &g_node_cmp;
}
@end
@proof fwd.installCopier
@object-bits 10
@enforce installCopier_c
@body MockCFunctionCopierNode_ctor MockNamedValueCopier_ctor
@extra
void *VERIF_operator_new(size_t size)
{
  __CPROVER_assert(size == sizeof(struct MockCFunctionCopierNode), "one copier node is allocated");
  g_new_calls++;
  return &g_node_cpy;
}
@end

# ---- removeAllComparatorsAndCopiers: every adaptor node is destroyed and released exactly once, both lists end empty, and the
# MockSupport forgets them.  Bounded stand-in: lists of 0..2 comparator nodes and 0..2 copier nodes.
@decl
struct MockCFunctionComparatorNode h_cmp[2]; struct MockCFunctionCopierNode h_cpy[2];
unsigned g_dtor_cmp[2], g_dtor_cpy[2], g_free_cmp[2], g_free_cpy[2], g_free_other, g_removed_at_frees;
@end
@stub MockSupport_removeAllComparatorsAndCopiers
void MockSupport_removeAllComparatorsAndCopiers(struct MockSupport *self)
  __CPROVER_requires(self == g_sup_cur)
  __CPROVER_requires(g_calls == 0)
  __CPROVER_assigns(g_calls, g_method)
  __CPROVER_ensures(g_calls == 1 && g_method == M_MockSupport_removeAllComparatorsAndCopiers);
@end
# the same forwarder seen from another forwarder that calls it (none does: a forwarder reaching it has a second effect on the
# current MockSupport, which its own contract - exactly one forwarded call - then refuses): its effect as proved just below
@stub removeAllComparatorsAndCopiers_c
void removeAllComparatorsAndCopiers_c(void)
  __CPROVER_assigns(g_calls, g_method)
  __CPROVER_ensures(g_calls == __CPROVER_old(g_calls) + 1 && g_method == M_MockSupport_removeAllComparatorsAndCopiers);
@end
@proof fwd.removeAllComparatorsAndCopiers.bounded
@object-bits 10
@body removeAllComparatorsAndCopiers_c MockCFunctionComparatorNode_dtor MockCFunctionCopierNode_dtor
@unwindset removeAllComparatorsAndCopiers_c.0:3,removeAllComparatorsAndCopiers_c.1:3
@bounded lists of at most 2 comparator nodes and 2 copier nodes (every shorter list included)
@extra
void MockNamedValueComparator_dtor(struct MockNamedValueComparator *self)
{
  for (unsigned i = 0; i < 2; i++) if ((void *)self == (void *)&h_cmp[i]) { __CPROVER_assert(g_free_cmp[i] == 0, "destroyed before it is released"); g_dtor_cmp[i]++; }
}
void MockNamedValueCopier_dtor(struct MockNamedValueCopier *self)
{
  for (unsigned i = 0; i < 2; i++) if ((void *)self == (void *)&h_cpy[i]) { __CPROVER_assert(g_free_cpy[i] == 0, "destroyed before it is released"); g_dtor_cpy[i]++; }
}
void VERIF_operator_delete(void *p)
{
  /* a released node is poisoned: reading its link afterwards is a use after free */
  for (unsigned i = 0; i < 2; i++)
  {
    if (p == (void *)&h_cmp[i]) { g_free_cmp[i]++; h_cmp[i].next_ = (struct MockCFunctionComparatorNode *)1; return; }
    if (p == (void *)&h_cpy[i]) { g_free_cpy[i]++; h_cpy[i].next_ = (struct MockCFunctionCopierNode *)1; return; }
  }
  g_free_other++;
}
@harness
void verif_harness(void)
{
  unsigned ncmp, ncpy;
  __CPROVER_assume(ncmp <= 2 && ncpy <= 2);
  __CPROVER_assume(C19_START && g_free_other == 0);
  for (unsigned i = 0; i < 2; i++) { __CPROVER_assume(g_dtor_cmp[i] == 0 && g_dtor_cpy[i] == 0 && g_free_cmp[i] == 0 && g_free_cpy[i] == 0); }
  comparatorList_ = ncmp == 0 ? (struct MockCFunctionComparatorNode *)0 : &h_cmp[0];
  h_cmp[0].next_ = ncmp == 2 ? &h_cmp[1] : (struct MockCFunctionComparatorNode *)0; h_cmp[1].next_ = (struct MockCFunctionComparatorNode *)0;
  copierList_ = ncpy == 0 ? (struct MockCFunctionCopierNode *)0 : &h_cpy[0];
  h_cpy[0].next_ = ncpy == 2 ? &h_cpy[1] : (struct MockCFunctionCopierNode *)0; h_cpy[1].next_ = (struct MockCFunctionCopierNode *)0;
  removeAllComparatorsAndCopiers_c();
  __CPROVER_assert(comparatorList_ == (struct MockCFunctionComparatorNode *)0 && copierList_ == (struct MockCFunctionCopierNode *)0, "both lists are empty afterwards");
  for (unsigned i = 0; i < 2; i++)
  {
    __CPROVER_assert(g_dtor_cmp[i] == (i < ncmp) && g_free_cmp[i] == (i < ncmp), "every comparator node of the list is destroyed and released exactly once, no other");
    __CPROVER_assert(g_dtor_cpy[i] == (i < ncpy) && g_free_cpy[i] == (i < ncpy), "every copier node of the list is destroyed and released exactly once, no other");
  }
  __CPROVER_assert(g_free_other == 0, "nothing else is released");
  __CPROVER_assert(g_calls == 1 && g_method == M_MockSupport_removeAllComparatorsAndCopiers, "the current MockSupport forgets its comparators and copiers");
  VERIF_CANARY
}
@end

# ---- the adaptor nodes: a C++ comparator / copier that calls the C functions it was built from, arguments in order
@decl
int c19_equal(const void *object1, const void *object2);
const char *c19_to_string(const void *object);
void c19_copy(void *dst, const void *src);
int g_eq_ret; const char *g_str_ret; unsigned g_cb_calls; const void *g_cb_a, *g_cb_b;
@end
@proof adaptor.comparator.isEqual
@object-bits 10
@body MockCFunctionComparatorNode_isEqual
@extra
int c19_equal(const void *object1, const void *object2) { g_cb_calls++; g_cb_a = object1; g_cb_b = object2; return g_eq_ret; }
@harness
void verif_harness(void)
{
  const void *o1, *o2;
  __CPROVER_assume(g_cb_calls == 0);
  g_node_cmp.equal_ = c19_equal;
  _Bool r = MockCFunctionComparatorNode_isEqual(&g_node_cmp, o1, o2);
  __CPROVER_assert(g_cb_calls == 1 && g_cb_a == o1 && g_cb_b == o2, "the C equality function is asked once, objects in order");
  __CPROVER_assert(r == (g_eq_ret != 0), "equal exactly when the C function answers nonzero (any nonzero value, not only 1)");
  VERIF_CANARY
}
@end
@proof adaptor.comparator.valueToString
@object-bits 10
@body MockCFunctionComparatorNode_valueToString
@extra
const char *c19_to_string(const void *object) { g_cb_calls++; g_cb_a = object; return g_str_ret; }
@harness
void verif_harness(void)
{
  const void *o; struct SimpleString out;
  __CPROVER_assume(g_cb_calls == 0 && g_ss_calls == 0);
  g_node_cmp.toString_ = c19_to_string;
  struct SimpleString *r = MockCFunctionComparatorNode_valueToString(&out, &g_node_cmp, o);
  __CPROVER_assert(g_cb_calls == 1 && g_cb_a == o, "the C to-string function is asked once about the object");
  __CPROVER_assert(r == &out && g_ss_calls == 1 && g_ss1 == &out && g_ss1_text == g_str_ret, "the result is the string built from what the C function answered");
  VERIF_CANARY
}
@end
@proof adaptor.copier.copy
@object-bits 10
@body MockCFunctionCopierNode_copy
@extra
void c19_copy(void *dst, const void *src) { g_cb_calls++; g_cb_a = dst; g_cb_b = src; }
@harness
void verif_harness(void)
{
  void *d; const void *s_;
  __CPROVER_assume(g_cb_calls == 0);
  g_node_cpy.copier_ = c19_copy;
  MockCFunctionCopierNode_copy(&g_node_cpy, d, s_);
  __CPROVER_assert(g_cb_calls == 1 && g_cb_a == d && g_cb_b == s_, "the C copy function runs once, destination first");
  VERIF_CANARY
}
@end

# ---- the C-only failure reporter: a mock failure of C code fails the running test once, through a terminator that leaves by
# longjmp (C frames cannot be unwound by an exception), crashing first when crashOnFailure is set
@decl
struct UtestShell *g_test; _Bool g_test_failed; unsigned g_failwith_calls, g_crash_calls, g_exit_calls; const struct TestTerminator *g_noexc_terminator;
struct MockFailureReporterForInCOnlyCode g_reporter; struct MockFailureReporterTestTerminatorForInCOnlyCode g_cterm; struct MockFailure g_failure;
@end
@proof reporter.failTest
@object-bits 10
@body MockFailureReporterForInCOnlyCode_failTest MockFailureReporterTestTerminatorForInCOnlyCode_ctor
@extra
UtestShell *MockFailureReporter_getTestToFail(struct MockFailureReporter *self) { __CPROVER_assert(self == (struct MockFailureReporter *)&g_reporter, "the reporter's own test"); return g_test; }
_Bool UtestShell_hasFailed(const struct UtestShell *self) { __CPROVER_assert(self == g_test, "asked of the test to fail"); return g_test_failed; }
void UtestShell_failWith__2(struct UtestShell *self, const TestFailure *failure, const TestTerminator *terminator)
{
  __CPROVER_assert(self == g_test, "the test to fail is failed");
  __CPROVER_assert(failure == (const TestFailure *)&g_failure, "with the mock failure as reported");
  __CPROVER_assert((((const struct MockFailureReporterTestTerminatorForInCOnlyCode *)terminator)->crashOnFailure_ != 0) == (((struct MockFailureReporter *)&g_reporter)->crashOnFailure_ != 0), "the terminator carries the reporter's crash flag");
  g_failwith_calls++;
}
@harness
void verif_harness(void)
{
  __CPROVER_assume(g_failwith_calls == 0);
  MockFailureReporterForInCOnlyCode_failTest(&g_reporter, &g_failure);
  __CPROVER_assert(g_failwith_calls == (g_test_failed ? 0 : 1), "fails the test exactly when it has not failed yet");
  VERIF_CANARY
}
@end
@proof reporter.exitCurrentTest
@object-bits 10
@body MockFailureReporterTestTerminatorForInCOnlyCode_exitCurrentTest
@unwindset MockFailureReporterTestTerminatorForInCOnlyCode_exitCurrentTest.0:2
@complete-unwind do { } while (0) of the UT_CRASH macro
@extra
void UtestShell_crash(void) { __CPROVER_assert(g_exit_calls == 0, "crash before the exit"); g_crash_calls++; }
const TestTerminator *UtestShell_getCurrentTestTerminatorWithoutExceptions(void) { return g_noexc_terminator; }
void TestTerminator_exitCurrentTest(const struct TestTerminator *self) { __CPROVER_assert(self == g_noexc_terminator, "leaves through the terminator that does not throw"); g_exit_calls++; }
@harness
void verif_harness(void)
{
  __CPROVER_assume(g_crash_calls == 0 && g_exit_calls == 0);
  MockFailureReporterTestTerminatorForInCOnlyCode_exitCurrentTest(&g_cterm);
  __CPROVER_assert(g_crash_calls == (g_cterm.crashOnFailure_ ? 1 : 0), "crashes exactly when crashOnFailure is set");
  __CPROVER_assert(g_exit_calls == 1, "then ends the running test");
  VERIF_CANARY
}
@end
'''

if __name__ == '__main__':
    gen()
