#!/usr/bin/env python3
"""Replay: turn a failed obligation into a replay file and, where a native driver exists, run the
counterexample against the real compiled C++ (DESIGN.md section 2.6)."""
import os, re, json, subprocess, tempfile, shutil, glob, hashlib, threading
from concurrent.futures import ThreadPoolExecutor

VERIF = os.path.dirname(os.path.dirname(os.path.abspath(__file__)))
REPO = os.environ.get('VERIF_REPO', '/repo')
_build_lock = threading.Lock()


def clean_inputs(inputs):
    out = {}
    for k, v in inputs.items():
        if k.startswith('__') or '$' in k or k.endswith('_wrapper') or '[' in k and '__CPROVER' in k: continue
        if k in ('set', 'write_set', 'reference', 'candidate', 'target', 'ptr_pred_ctx', 'write_set_postconditions', 'write_set_to_link',
                 'contract_assigns_size', 'contract_frees_size', 'assume_requires_ctx', 'assert_requires_ctx', 'assume_ensures_ctx',
                 'assert_ensures_ctx', 'allow_allocate', 'allow_deallocate'): continue
        out[k] = v
    return out


def native_build(driver, sess_dir, gen_dir, extra_defs=()):
    """build /verif/replay/<driver>.cpp against the real sources of /repo's working tree.
    The driver lists the .cpp files it #includes itself in a line '// REPLAY-INCLUDES: a.cpp b.cpp';
    every other library source is compiled and linked normally."""
    src = os.path.join(VERIF, 'replay', driver + '.cpp')
    if not os.path.exists(src): return None, 'no native driver ' + src
    txt = open(src).read()
    m = re.search(r'REPLAY-INCLUDES:(.*)', txt)
    included = m.group(1).split() if m else []
    ext = 'REPLAY-EXT' in txt
    bdir = os.path.join(sess_dir, 'native')
    with _build_lock:
        os.makedirs(bdir, exist_ok=True)
        srcs = sorted(glob.glob(os.path.join(REPO, 'src/CppUTest/*.cpp')) + glob.glob(os.path.join(REPO, 'src/Platforms/Gcc/*.cpp')))
        if ext: srcs += sorted(glob.glob(os.path.join(REPO, 'src/CppUTestExt/*.cpp')))
        flags = ['-std=c++11', '-g', '-O0', '-fsanitize=address,undefined', '-fno-sanitize-recover=undefined', '-I' + os.path.join(REPO, 'include'),
                 '-I' + gen_dir, '-DHAVE_CONFIG_H', '-w'] + ['-D' + d for d in extra_defs]
        def cc(s):
            o = os.path.join(bdir, re.sub(r'\W', '_', os.path.relpath(s, REPO)) + '.o')
            if not os.path.exists(o):
                p = subprocess.run(['g++'] + flags + ['-c', s, '-o', o], capture_output=True, text=True)
                if p.returncode != 0: return None, p.stderr[-2000:]
            return o, ''
        with ThreadPoolExecutor(max_workers=16) as ex:
            objs = list(ex.map(cc, srcs))
        for o, e in objs:
            if o is None: return None, 'native build of /repo sources failed: ' + e
        skip = set(re.sub(r'\W', '_', i) + '.o' for i in included)
        link = [o for o, _ in objs if os.path.basename(o) not in skip]
        exe = os.path.join(bdir, driver)
        ms = re.search(r'REPLAY-STD:\s*(\S+)', txt)      # the driver (and what it #includes) in a later dialect than the library objects
        dflags = [('-std=' + ms.group(1)) if (ms and f.startswith('-std=')) else f for f in flags]
        p = subprocess.run(['g++'] + dflags + ['-I' + os.path.join(VERIF, 'replay'), '-I' + REPO, src] + link + ['-lpthread', '-o', exe], capture_output=True, text=True)
        if p.returncode != 0: return None, 'native driver build failed: ' + p.stderr[-3000:]
    return exe, ''


def run_native(exe, inputs, extra_args=()):
    args = [exe]
    for k, v in inputs.items():
        if not re.match(r'^[A-Za-z_][\w\.\[\]\->]*$', k): continue
        if isinstance(v, dict):
            if v.get('binary'): args.append('%s=b%s' % (k, v['binary']))
            elif v.get('value') is not None: args.append('%s=%s' % (k, v['value']))
        else:
            args.append('%s=%s' % (k, v))
    args += list(extra_args)
    env = dict(os.environ); env['ASAN_OPTIONS'] = 'detect_leaks=0:abort_on_error=0'; env['UBSAN_OPTIONS'] = 'print_stacktrace=1'
    try:
        p = subprocess.run(args, capture_output=True, timeout=120, env=env)
        p.stdout = p.stdout.decode('utf-8', 'replace'); p.stderr = p.stderr.decode('utf-8', 'replace')
    except subprocess.TimeoutExpired:
        return None, 'native replay timed out'
    out = (p.stdout + p.stderr)[-4000:]
    reproduced = p.returncode != 0
    return reproduced, out


def make_replay(pid, res, ob, clause, verif, confirm=True, others=()):
    proof = res.proof
    rdir = os.path.join(VERIF, 'replays', pid)
    os.makedirs(rdir, exist_ok=True)
    path = os.path.join(rdir, re.sub(r'[^\w\.\-]', '_', proof.name + '.' + ob['property']) + '.json')
    inputs, trace = verif.trace_for(res, ob['property'])
    inputs = clean_inputs(inputs)
    rp = {'property': pid, 'proof': proof.name, 'obligation': ob['property'], 'description': ob.get('description', ''),
          'clause': clause, 'source': ob.get('sourceLocation', {}), 'inputs': inputs, 'verifier': 'cbmc 6.11.0', 'cmd': res.cmd,
          'other_failing_obligations': list(others), 'trace_tail': trace[-6000:], 'confirmed': False, 'native': None, 'path': path,
          'functions': [dict(function=f['function'], source=f['source'], line=f['line']) for f in res.functions]}
    if proof.replay and confirm:
        driver = proof.replay[0]; extra = proof.replay[1:]
        exe, err = native_build(driver, os.path.dirname(res.dir), os.path.join(os.path.dirname(res.dir), 'gen'), proof.defines)
        if exe is None:
            rp['native'] = err
        else:
            ok, out = run_native(exe, inputs, extra)
            rp['native'] = out; rp['confirmed'] = bool(ok)
    json.dump(rp, open(path, 'w'), indent=1)
    return rp


def witness_matches(hit, rp):
    """a known finding only covers the listed witness: if the entry carries 'witness' constraints on the
    counterexample inputs they must all hold"""
    w = hit.get('witness_inputs')
    if not w: return True
    for k, pat in w.items():
        v = rp['inputs'].get(k, {})
        s = str(v.get('value') if isinstance(v, dict) else v)
        if not re.search(pat, s): return False
    return True


def replay_file(sp, path, verif):
    """./check P --replay file: rerun the native driver on the recorded inputs, else re-run the proof"""
    rp = json.load(open(path))
    proof = [p for p in sp.proofs if p.name == rp['proof']]
    if not proof:
        print('proof %s no longer exists' % rp['proof']); return 2
    proof = proof[0]
    sess = verif.Session()
    if proof.replay and rp.get('inputs'):
        exe, err = native_build(proof.replay[0], sess.dir, sess.gen, proof.defines)
        if exe:
            ok, out = run_native(exe, rp['inputs'], proof.replay[1:])
            print(out)
            if ok:
                print('VIOLATION property=%s replay=%s' % (rp['property'], path)); return 1
            print('native replay does not reproduce on the current tree'); return 0
        print(err)
    r = verif.run_proof(sess, sp, proof)
    if r.status == 'broken':
        print('UNDECIDED ' + r.msg); return 2
    if any(o['property'] == rp['obligation'] for o in r.failed):
        print('obligation %s still fails' % rp['obligation'])
        print('VIOLATION property=%s replay=%s no-failing-input-found' % (rp['property'], path)); return 1
    print('obligation %s is discharged on the current tree' % rp['obligation']); return 0
