#!/bin/bash
# usage: seed_confirm.sh <worktree> <seed-name>
# confirm a seeded change ourselves (test suite passes with it, demo fails with it and passes without) and store it under /verif/seeded/<seed-name>
wt=$1; name=$2; d=/verif/seeded/$name
cd $wt || exit 2
git diff --quiet && { echo "no patch applied in $wt"; exit 2; }
git diff > /tmp/w/$name.patch.diff
( cmake --build _build -- -k 0 >/dev/null 2>&1 ); t_with=$(ctest --test-dir _build -j8 --timeout 900 2>&1 | grep "tests passed")
timeout 900 bash SEED/run_demo.sh > /tmp/w/$name.with.txt 2>&1; e_with=$?
git stash -q
( cmake --build _build -- -k 0 >/dev/null 2>&1 )
timeout 900 bash SEED/run_demo.sh > /tmp/w/$name.without.txt 2>&1; e_without=$?
git stash pop -q
echo "$name: tests with patch: [$t_with]; demo with patch exit=$e_with; demo without patch exit=$e_without"
if [ "$e_with" != "0" ] && [ "$e_without" = "0" ] && echo "$t_with" | grep -q "100% tests passed"; then
  mkdir -p $d; cp /tmp/w/$name.patch.diff $d/patch.diff; cp SEED/demo* SEED/run_demo.sh SEED/NOTES.md $d/ 2>/dev/null
  tail -5 /tmp/w/$name.with.txt > $d/demo_output_with_patch.txt; tail -3 /tmp/w/$name.without.txt > $d/demo_output_without_patch.txt
  echo "CONFIRMED -> $d"
else echo "NOT CONFIRMED"; fi
