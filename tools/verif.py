#!/usr/bin/env python3
"""Proof runner: extract -> splice contracts -> goto-cc -> goto-instrument --dfcc -> cbmc -> classify
-> replay -> evidence.  See DESIGN.md section 2."""
import os, sys, re, json, time, shutil, subprocess, tempfile, threading, hashlib, resource, atexit
from concurrent.futures import ThreadPoolExecutor

HERE = os.path.dirname(os.path.abspath(__file__))
VERIF = os.path.dirname(HERE)
REPO = os.environ.get('VERIF_REPO', '/repo')
sys.path.insert(0, HERE)
import cxx2c, spec as specmod

DEFAULT_FLAGS = ['bounds-check', 'pointer-check', 'pointer-overflow-check', 'signed-overflow-check',
                 'undefined-shift-check', 'div-by-zero-check', 'conversion-check-off']
MEM_LIMIT = int(os.environ.get('VERIF_MEM_GB', '16')) * 1024 ** 3

PROPERTY_CLASSES = ('postcondition', 'assertion', 'precondition', 'pointer_dereference', 'array_bounds', 'bounds',
                    'pointer_arithmetic', 'pointer', 'overflow', 'undefined-shift', 'division-by-zero', 'assigns',
                    'precondition_instance', 'pointer_primitives', 'NaN', 'enum-range-check', 'conversion', 'memory-leak', 'no-body')
INTERNAL_CLASSES = ('loop_invariant_base', 'loop_invariant_step', 'loop_decreases', 'loop_assigns', 'loop_step_unwinding', 'unwind', 'recursion')


class Broken(Exception):
    """machinery/extraction/solver problem: exit 2, never a verdict"""


def log(*a):
    print(*a, file=sys.stderr, flush=True)


class Session:
    def __init__(self, keep=False):
        base = os.environ.get('VERIF_SCRATCH_BASE', '/tmp')
        os.makedirs(base, exist_ok=True)
        self.dir = tempfile.mkdtemp(prefix='verif.', dir=base)
        self.keep = keep
        atexit.register(self.cleanup)
        self.units = {}
        self.lock = threading.Lock()
        self.locks = {}
        self.gen = os.path.join(self.dir, 'gen')
        os.makedirs(os.path.join(self.gen, 'generated'))
        self._config_header()

    def cleanup(self):
        if not self.keep:
            shutil.rmtree(self.dir, ignore_errors=True)

    def _config_header(self):
        """config.h.cmake of the *current* tree, instantiated with the values the Gcc-platform cmake
        configure detects on this image (recorded as an assumption in every evidence file)"""
        on = {'CPPUTEST_USE_LONG_LONG': '1', 'CPPUTEST_HAVE_STRDUP': '', 'CPPUTEST_HAVE_FORK': '', 'CPPUTEST_HAVE_WAITPID': '',
              'CPPUTEST_HAVE_KILL': '', 'CPPUTEST_HAVE_PTHREAD_MUTEX_LOCK': '', 'CPPUTEST_HAVE_GETTIMEOFDAY': ''}
        out = []
        for l in open(os.path.join(REPO, 'config.h.cmake')):
            m = re.match(r'#cmakedefine(01)?\s+(\w+)', l)
            if m:
                n = m.group(2)
                if m.group(1): out.append('#define %s %s\n' % (n, '1' if n in on else '0'))
                elif n in on: out.append('#define %s %s\n' % (n, on[n]))
                else: out.append('/* #undef %s */\n' % n)
            else: out.append(l)
        open(os.path.join(self.gen, 'generated', 'CppUTestGeneratedConfig.h'), 'w').write(''.join(out))

    def unit(self, tu_rel, defines=()):
        key = (tu_rel, tuple(defines))
        with self.lock:
            lk = self.locks.setdefault(key, threading.Lock())
        with lk:
            if key not in self.units:
                src = os.path.join(REPO, tu_rel)
                if not os.path.exists(src): raise Broken('translation unit %s does not exist' % src)
                try:
                    tu = cxx2c.TU(src, [os.path.join(REPO, 'include'), self.gen], ['HAVE_CONFIG_H'] + list(defines))
                    self.units[key] = cxx2c.Unit(tu)
                    self.layout_check(self.units[key], tu_rel, defines)
                except cxx2c.Unsupported as ex:
                    raise Broken('cannot load %s: %s' % (tu_rel, ex))
            return self.units[key]


def _layout_check(self, unit, tu_rel, defines):
    """R7 guard: sizes, field offsets and enumerator values of the emitted C types equal those of the real
    C++ declarations (g++ static_asserts against the real translation unit)"""
    items = unit.prelude.layout_items()
    d = tempfile.mkdtemp(prefix='layout.', dir=self.dir)
    body = ''.join('  printf("%%ld\\n", (long)(%s));\n' % c for c, _ in items)
    open(os.path.join(d, 'l.c'), 'w').write(cxx2c.C_PRELUDE + unit.types + '#include <stdio.h>\nint main(void){\n' + body + 'return 0;}\n')
    p = subprocess.run(['gcc', '-std=gnu11', '-w', 'l.c', '-o', 'l'], cwd=d, capture_output=True, text=True)
    if p.returncode != 0: raise Broken('layout check: emitted types do not compile as C: ' + p.stderr[-1500:])
    vals = subprocess.run(['./l'], cwd=d, capture_output=True, text=True).stdout.split()
    if len(vals) != len(items): raise Broken('layout check: value count mismatch')
    cpp = '#include <stddef.h>\n#include "%s"\n' % os.path.join(REPO, tu_rel)
    cpp += ''.join('static_assert((long)(%s) == %sL, "layout: %s");\n' % (x, v, x.replace('"', '')) for (c, x), v in zip(items, vals))
    open(os.path.join(d, 'l.cpp'), 'w').write(cpp)
    p = subprocess.run(['g++', '-std=c++11', '-fsyntax-only', '-w', '-Wno-invalid-offsetof', '-fno-access-control', '-I' + os.path.join(REPO, 'include'), '-I' + self.gen,
                        '-DHAVE_CONFIG_H'] + ['-D' + x for x in defines] + ['l.cpp'], cwd=d, capture_output=True, text=True)
    shutil.rmtree(d, ignore_errors=True)
    if p.returncode != 0:
        errs = [l for l in p.stderr.splitlines() if 'error' in l][:8]
        raise Broken('layout check failed for %s (emitted C types disagree with the real C++): %s' % (tu_rel, ' | '.join(errs)))
    unit.layout_checked = len(items)

Session.layout_check = _layout_check


NOWRAP_PUSH = '#pragma CPROVER check push\n#pragma CPROVER check disable "unsigned-overflow"\n'
NOWRAP_POP = '\n#pragma CPROVER check pop\n'


_deftu_cache = {}
def find_defining_tu(qn, not_tu):
    """the library source file that defines C++ function qn ('Class::method' or 'function'), by text search"""
    if qn in _deftu_cache: return _deftu_cache[qn]
    import glob
    pat = re.compile(r'(^|[\s\*&])%s\s*\(' % re.escape(qn), re.M)
    hit = None
    for f in sorted(glob.glob(os.path.join(REPO, 'src', '*', '*.cpp')) + glob.glob(os.path.join(REPO, 'src', 'Platforms', 'Gcc', '*.cpp'))):
        rel = os.path.relpath(f, REPO)
        if rel == not_tu: continue
        try: txt = open(f, errors='replace').read()
        except OSError: continue
        for m in pat.finditer(txt):
            # a definition: the parameter list is followed by '{' (possibly after const / initialisers), not by ';'
            rest = txt[m.end():m.end() + 400]
            d = 1; k = 0
            while k < len(rest) and d:
                d += rest[k] == '('; d -= rest[k] == ')'; k += 1
            tail = rest[k:k + 80].lstrip()
            if tail.startswith('{') or tail.startswith('const') and '{' in tail[:40] or tail.startswith(':'):
                hit = rel; break
        if hit: break
    _deftu_cache[qn] = hit
    return hit


def splice(fn_text, fspec, loops):
    """insert contract clauses, loop contracts and ghost statements at the emitter's markers"""
    t = fn_text
    contract = fspec.contract if fspec else ''
    if contract.strip():
        # spec arithmetic (ghost counters) is not program arithmetic: no unsigned-wrap check inside clauses
        t = NOWRAP_PUSH + t
        t = t.replace('/*@ENTRY@*/', NOWRAP_POP + '/*@ENTRY@*/', 1)
    t = t.replace('/*@CONTRACT@*/', contract.rstrip('\n'), 1)
    for k in range(loops):
        mark = '/*@LOOP %d@*/' % k
        lc = fspec.loops.get(k, '') if fspec else ''
        t = t.replace(mark, ('\n' + lc.rstrip('\n')) if lc else '', 1)
    if fspec:
        for k in fspec.loops:
            if k >= loops: raise Broken('%s: spec has a contract for loop %d but the function has %d loops' % (fspec.name, k, loops))
        ent = fspec.ghost.get('entry', '')
        for st in ent.split(';'):
            st = st.strip()
            if st and not re.match(r'^g\w*\s*(=|\+=|\+\+)', st): raise Broken('%s: ghost statement may only assign g* variables: %s' % (fspec.name, st))
        t = t.replace('/*@ENTRY@*/', (NOWRAP_PUSH + ent.rstrip('\n') + NOWRAP_POP) if ent.strip() else '', 1)
        for where, txt in fspec.ghost.items():
            if where == 'entry': continue
            m = re.match(r'(before-loop|after-loop|body-begin) (\d+)$', where)
            if not m: raise Broken('%s: ghost position "%s" not supported' % (fspec.name, where))
            mark = '/*@%s %s@*/' % ({'before-loop': 'BEFORELOOP', 'after-loop': 'AFTERLOOP', 'body-begin': 'BODYBEGIN'}[m.group(1)], m.group(2))
            if mark not in t: raise Broken('%s: no loop %s for ghost statement' % (fspec.name, m.group(2)))
            for st in txt.split(';'):
                st = st.strip()
                if st and not re.match(r'^g\w*\s*(=|\+=|\+\+)', st): raise Broken('%s: ghost statement may only assign g* variables: %s' % (fspec.name, st))
            t = t.replace(mark, NOWRAP_PUSH + txt.rstrip('\n') + NOWRAP_POP, 1)
    else:
        t = t.replace('/*@ENTRY@*/', '', 1)
    t = re.sub(r'/\*@(BEFORELOOP|AFTERLOOP|BODYBEGIN) \d+@\*/\n?', '', t)
    return t


def split_params(proto):
    i = proto.index('('); depth = 0; j = i
    # find matching paren of the parameter list (the last top-level group)
    groups = []; start = None
    for k, ch in enumerate(proto):
        if ch == '(':
            if depth == 0: start = k
            depth += 1
        elif ch == ')':
            depth -= 1
            if depth == 0: groups.append((start, k))
    s, e = groups[-1]
    inside = proto[s + 1:e]
    ps, depth, cur = [], 0, ''
    for ch in inside:
        if ch == ',' and depth == 0: ps.append(cur.strip()); cur = ''
        else:
            depth += ch in '(['; depth -= ch in ')]'; cur += ch
    if cur.strip(): ps.append(cur.strip())
    return [p for p in ps if p not in ('void', '...')]

def param_name(p):
    m = re.search(r'\(\*\s*(\w+)\)', p)
    if m: return m.group(1)
    m = re.search(r'(\w+)\s*(\[\d*\])*$', p)
    return m.group(1)


class Assembled:
    pass


def assemble(sess, sp, proof):
    a = Assembled()
    a.functions = []      # evidence records
    a.rules = {}
    home = {}
    def unit_of(cname):
        tu = proof.tu
        if '@' in cname: cname, tu = cname.split('@', 1)
        elif cname in sp.functions and getattr(sp.functions[cname], 'tu', None): tu = sp.functions[cname].tu
        return cname, sess.unit(tu, proof.defines), tu
    main_unit = sess.unit(proof.tu, proof.defines)
    bodies = []
    names = ([proof.enforce] if proof.enforce else []) + proof.bodies
    calls = set(); globs = {}
    text_all = proof.extra + (proof.harness or '') + ''.join(d for d, _ in sp.decls)
    listed = set(n.split('@')[0] for n in names) | set(proof.replace)
    a.auto_bodies = []
    idx = 0
    while idx < len(names):
        n = names[idx]; idx += 1
        cn, u, tu = unit_of(n)
        try:
            r = u.emit(cn)
        except cxx2c.Unsupported as ex:
            if cn in a.auto_bodies: continue      # an auto-inlined helper that cannot be extracted: reported as missing callee below
            raise Broken('extraction of %s failed: %s' % (cn, ex))
        bodies.append((cn, u, r)); calls |= r['calls']
        # a call through a function-pointer variable of the unit (an entry-point slot): the variable is emitted, there is no callee to resolve
        for c in sorted(r['calls']):
            if c in u.prelude.globals and c not in u.fn and c not in sp.stubs and not c.startswith('PlatformSpecific') and not u.global_def(c)[1]:
                globs[c] = u; calls.discard(c); r['calls'].discard(c)
        # a callee the spec does not mention, defined in the same translation unit (a helper introduced by a refactoring):
        # verify it together with its caller instead of giving up (loops in it need unwinding like any contract-less loop)
        for c in sorted(r['calls']):
            if c in listed or c in sp.stubs or c in a.auto_bodies or len(a.auto_bodies) >= 6: continue
            if c.startswith('__builtin_') or c.startswith('PlatformSpecific') or c in ('VERIF_operator_new', 'VERIF_throw'): continue
            if re.search(r'\b%s\s*\(' % re.escape(c), text_all): continue
            f = u.fn.get(c)
            if f is not None and any(x.get('kind') == 'CompoundStmt' for x in f.get('inner', [])):
                a.auto_bodies.append(c); names.append(c + '@' + tu if '@' not in c else c); listed.add(c)
            elif f is not None and f.get('_qn'):
                # declared here, defined in another translation unit of the library: find it by its qualified name
                other = find_defining_tu(f['_qn'], tu)
                if other:
                    a.auto_bodies.append(c); names.append(c + '@' + other); listed.add(c)
        for g in r['globals']: globs[g] = u
        for k, v in r['rules'].items(): a.rules[k] = a.rules.get(k, 0) + v
        f, bo, eo, h = r['srchash']
        a.functions.append(dict(function=cn, tu=tu, source=f, line=r['line'], byte_range=[bo, eo], sha256=h, loops=r['loops'],
                                rules=r['rules'], role='enforced' if cn == proof.enforce else ('auto-inlined helper' if cn in a.auto_bodies else 'body')))
    body_names = set(b[0] for b in bodies)
    # globals of the translation unit that only the contracts / harness mention (e.g. a static data member a postcondition talks about)
    spec_text = (proof.harness or '') + proof.extra + ''.join(sp.functions[c].contract for c in ([proof.enforce] if proof.enforce else []) + list(proof.replace) if c in sp.functions)
    decl_text = '\n'.join(d for d, _ in sp.decls)
    # a function of the unit that the enforced contract / harness names (e.g. compares a function pointer with) and that the proof
    # lists under @replace gets its prototype and contract even when the current code no longer refers to it
    calls |= set(re.findall(r'\b[A-Za-z_]\w*\b', re.sub(r'/\*.*?\*/', ' ', spec_text, flags=re.S))) & set(main_unit.fn) & set(proof.replace)   # comments do not count
    for g in set(re.findall(r'\b[A-Za-z_]\w*\b', spec_text + decl_text)) & set(main_unit.prelude.globals):
        if g in globs: continue
        if re.search(r'^[^#\n]*(?:\w\s+\**|\*)%s\s*(?:;|=[^=]|,|\[)' % re.escape(g), decl_text, re.M): continue    # the spec declares its own variable of that name
        globs[g] = main_unit
    out = [cxx2c.C_PRELUDE, main_unit.types]
    # globals (R14 / R15)
    seams = set(); gl_first = []; gl_init = []
    for g in sorted(globs):
        try:
            txt, is_seam = globs[g].global_def(g)
        except cxx2c.Unsupported as ex:
            raise Broken('global %s: %s' % (g, ex))
        if is_seam:
            seams.add(g)
            if g not in sp.stubs: gl_first.append(txt)
        elif '=' in txt:
            gl_first.append(txt.split('=')[0].rstrip() + ';'); gl_init.append(txt)
        else: gl_first.append(txt)
    out.append('/* ---- globals (R14) ---- */\n' + '\n'.join(gl_first + gl_init) + '\n')
    for inc in proof.includes:
        out.append(open(os.path.join(VERIF, inc)).read())
    for d, _ in sp.decls: out.append(d + '\n')
    # prototypes and contracts of callees
    extra_text = proof.extra + (proof.harness or '') + ''.join(d for d, _ in sp.decls) + ''.join(open(os.path.join(VERIF, i)).read() for i in proof.includes)
    protos = []; replaced = []; a.assumed = []
    called = calls - body_names
    # calls are replaced by contract if listed in @replace or if the callee is a contract-only @stub; a listed
    # callee that the current code no longer calls is dropped (dfcc aborts on a replace target that does not occur)
    def defined_in_extra(c):
        # a C definition of c in the proof's own @extra / @harness text takes precedence over any @stub of a used spec file
        return re.search(r'\b%s\s*\([^;{}]*\)\s*\{' % re.escape(c), proof.extra + (proof.harness or '')) is not None
    def contract_stub(c):
        t = sp.stubs.get(c, '')
        if defined_in_extra(c): return False
        return bool(t) and '__CPROVER_' in t and '{' not in t.split('__CPROVER_')[0] and t.rstrip().endswith(';')
    a.replaced = [c for c in proof.replace if c in called] + sorted(c for c in called if contract_stub(c) and c not in proof.replace)
    a.dropped_replace = [c for c in proof.replace if c not in called]
    todo = sorted(called | set(a.replaced))
    for c in todo:
        if c.startswith('__builtin_') or c in ('VERIF_operator_new', 'VERIF_throw') or (c in ('VERIF_operator_delete', 'VERIF_operator_delete_array') and c not in sp.stubs and not re.search(r'\b%s\s*\(' % c, extra_text)):
            if c in sp.stubs: protos.append(sp.stubs[c])
            continue
        if c in sp.stubs and not defined_in_extra(c):
            protos.append(sp.stubs[c]); a.assumed.append(c); continue
        if c in seams and c not in sp.stubs:
            if re.search(r'\b%s\s*\(' % re.escape(c), extra_text): continue
            raise Broken('%s: platform seam %s is called but has no @stub' % (proof.name, c))
        fs = sp.functions.get(c)
        cn, u, tu = unit_of(c)
        try:
            pr = u.proto(cn)
        except cxx2c.Unsupported as ex:
            raise Broken('prototype of %s: %s' % (cn, ex))
        if pr is None:
            if re.search(r'\b%s\s*\(' % re.escape(c), extra_text): continue
            raise Broken('%s: callee %s is unknown to the AST and has no @stub' % (proof.name, c))
        if c in a.replaced:
            if not fs or not fs.contract.strip(): raise Broken('%s: @replace %s but it has no contract' % (proof.name, c))
            protos.append(pr + '\n' + fs.contract.rstrip('\n') + ';')
        else:
            if re.search(r'\b%s\s*\([^;{]*\)\s*(__CPROVER_\w+\s*\(.*\)\s*)*\{' % re.escape(c), extra_text, re.S):
                protos.append(pr + ';')
            else:
                raise Broken('%s: callee %s has neither @body, @replace nor a stub body' % (proof.name, c))
    for cn, u, r in bodies: protos.append(r['proto'] + ';')
    out.append('/* ---- callee prototypes / contracts ---- */\n' + NOWRAP_PUSH + '\n'.join(protos) + NOWRAP_POP)
    if proof.extra: out.append('/* ---- extra ---- */\n' + proof.extra)
    for cn, u, r in bodies:
        fs = sp.functions.get(cn)
        if cn == proof.enforce and (not fs or not fs.contract.strip()): raise Broken('%s: enforced function %s has no contract' % (proof.name, cn))
        # a body verified together with the target keeps its loop contracts but its own pre/post are not used
        text = r['text']
        if fs and (proof.no_loop_contracts or cn in a.auto_bodies):   # auto-inlined helpers run without their loop contracts (unwound)
            fs0 = specmod.FunctionSpec(cn); fs0.loops = {}; fs0.ghost = fs.ghost if (proof.enforce and cn not in a.auto_bodies) else {}; fs0.contract = fs.contract; fs = fs0
        if cn != proof.enforce and fs:
            fs2 = specmod.FunctionSpec(cn); fs2.loops = fs.loops; fs2.ghost = fs.ghost; fs2.contract = ''
            text = splice(text, fs2, r['loops'])
        else:
            text = splice(text, fs, r['loops'])
        if cn in proof.allow_wrap:
            text = '#pragma CPROVER check push\n#pragma CPROVER check disable "unsigned-overflow"\n' + text + '#pragma CPROVER check pop\n'
        out.append(text + '/*@RESETLINE@*/')
    # harness
    if proof.harness:
        out.append(proof.harness)
    else:
        if not proof.enforce: raise Broken('%s: neither @enforce nor @harness' % proof.name)
        cn, u, r = bodies[0]
        ps = split_params(r['proto'])
        decls = ''.join('  %s;\n' % p for p in ps)
        call = '%s(%s);' % (cn, ', '.join(param_name(p) for p in ps))
        out.append('void verif_harness(void)\n{\n%s  %s\n  VERIF_CANARY\n}\n' % (decls, call))
    canary = '__CPROVER_assert(0, "verif canary: harness end reachable");' if proof.canary else ''
    text = '#ifdef VERIF_NO_CANARY\n#define VERIF_CANARY\n#else\n#define VERIF_CANARY %s\n#endif\n' % canary + '\n'.join(out)
    # the emitted bodies carry #line directives into /repo; give the generated text its own lines back
    lines = text.split('\n')
    for k, l in enumerate(lines):
        if '/*@RESETLINE@*/' in l: lines[k] = l.replace('/*@RESETLINE@*/', '') + '\n#line %d "proof.c"' % (k + 3)
    # inserting one extra line per marker shifts what follows: recompute in a second pass
    text = '\n'.join(lines); lines = text.split('\n')
    for k, l in enumerate(lines):
        if l.startswith('#line ') and l.endswith('"proof.c"'): lines[k] = '#line %d "proof.c"' % (k + 2)
    a.text = '\n'.join(lines)
    a.loops_with_contract = 0 if proof.no_loop_contracts else sum(len(sp.functions[b[0]].loops) for b in bodies if b[0] in sp.functions and b[0] not in a.auto_bodies)
    return a


def limit():
    resource.setrlimit(resource.RLIMIT_AS, (MEM_LIMIT, MEM_LIMIT))


def run(cmd, timeout, cwd=None):
    t = time.time()
    try:
        # temporary files of cbmc (the CNF handed to the external SAT solver: hundreds of MB, left behind when a run is killed) go
        # into the proof's own scratch directory, which is removed with the session
        env = dict(os.environ); 
        if cwd: env['TMPDIR'] = os.path.abspath(cwd)
        p = subprocess.run(cmd, capture_output=True, timeout=timeout, cwd=cwd, preexec_fn=limit, env=env)
        return p.returncode, p.stdout.decode('utf-8', 'replace'), p.stderr.decode('utf-8', 'replace'), time.time() - t
    except subprocess.TimeoutExpired as ex:
        return -9, (ex.stdout or b'').decode(errors='replace') if isinstance(ex.stdout, bytes) else (ex.stdout or ''), 'TIMEOUT', time.time() - t


def base_tail(cmd, proof):
    return cmd[2:]


def run_portfolio(cur, backends, tail, timeout, cwd):
    """start one cbmc per back end; the first that terminates with a parsable result wins, the others are killed"""
    import signal
    t0 = time.time()
    if not os.path.isdir(cwd):
        os.makedirs(cwd, exist_ok=True); cur = os.path.join('..', cur)
    procs = []
    for b in backends:
        out = open(os.path.join(cwd, 'out_%s.json' % b), 'w')
        p = subprocess.Popen(['cbmc', cur] + backend_flags(b) + tail, stdout=out, stderr=subprocess.DEVNULL, cwd=cwd, preexec_fn=limit_pg, env=dict(os.environ, TMPDIR=os.path.abspath(cwd)))
        procs.append((b, p, out))
    winner = None; last = (-9, '', 'TIMEOUT', backends[0])
    while time.time() - t0 < timeout and winner is None:
        alive = 0
        for b, p, out in procs:
            rc = p.poll()
            if rc is None: alive += 1; continue
            if getattr(p, '_seen', False): continue
            p._seen = True
            out.flush()
            so = open(os.path.join(cwd, 'out_%s.json' % b)).read()
            ok = False
            try:
                js = json.loads(so)
                msgs = ' '.join(el.get('messageText', '') for el in js if isinstance(el, dict) and el.get('messageType') in ('ERROR',))
                ok = any('result' in el for el in js if isinstance(el, dict)) and not re.search(r'out of memory|Parse Error|error message|not declared', msgs) \
                     and not any(r.get('status') == 'ERROR' for el in js if isinstance(el, dict) for r in el.get('result', []))
            except Exception:
                ok = False
            last = (rc, so, '', b)
            if ok: winner = (rc, so, '', b); break
        if winner is None and alive == 0: break
        if winner is None: time.sleep(0.2)
    for b, p, out in procs:
        if p.poll() is None:
            try: os.killpg(p.pid, signal.SIGKILL)
            except Exception: pass
        out.close()
    dt = time.time() - t0
    if winner: return winner[0], winner[1], winner[2], dt, winner[3]
    if time.time() - t0 >= timeout: return -9, last[1], 'TIMEOUT', dt, backends[0]
    return last[0], last[1], last[2], dt, last[3]


def run_split(cur, proof, backends, tail, d):
    """decide the obligations matching proof.split[0] with the back ends proof.split[1], all others with @backend, and merge"""
    rx, b2 = proof.split
    rc, so, se, dt0 = run(['cbmc', cur, '--show-properties', '--json-ui'] + [t for t in tail if t not in ('--json-ui',)], 300, d)
    try:
        names = [p['name'] for el in json.loads(so) if isinstance(el, dict) for p in el.get('properties', [])]
    except Exception:
        return rc, so, se, dt0, backends[0]
    A = [n for n in names if re.search(rx, n)]; B = [n for n in names if not re.search(rx, n)]
    if not A or not B: return run_portfolio(cur, backends, tail, proof.timeout, d)
    def props(ns): return [x for n in ns for x in ('--property', n)]
    with ThreadPoolExecutor(max_workers=2) as ex:
        fa = ex.submit(run_portfolio, cur, b2.split(','), tail + props(A), proof.timeout, os.path.join(d, 'splitA'))
        fb = ex.submit(run_portfolio, cur, backends, tail + props(B), proof.timeout, os.path.join(d, 'splitB'))
        ra, rb = fa.result(), fb.result()
    if ra[2] == 'TIMEOUT' or rb[2] == 'TIMEOUT': return -9, '', 'TIMEOUT', max(ra[3], rb[3]), backends[0]
    try:
        ja, jb = json.loads(ra[1]), json.loads(rb[1])
        res = [r for el in ja if isinstance(el, dict) for r in el.get('result', [])] + [r for el in jb if isinstance(el, dict) for r in el.get('result', [])]
        msgs = [el for el in ja + jb if isinstance(el, dict) and el.get('messageType') in ('ERROR', 'WARNING')]
        return 0, json.dumps(msgs + [{'result': res}]), '', max(ra[3], rb[3]), rb[4] + '+' + ra[4] + '(split)'
    except Exception:
        return ra[0], ra[1], ra[2], ra[3], ra[4]


def limit_pg():
    os.setsid()
    resource.setrlimit(resource.RLIMIT_AS, (MEM_LIMIT, MEM_LIMIT))


def stop_on_fail_fallback(proof, d, defs, gi, cmd, timeout):
    """returns cbmc --json-ui text shaped like a normal run ('result' list) or None"""
    rc, so, se, dt = run(['goto-cc', '--function', 'verif_harness', '-DVERIF_NO_CANARY', '-o', 'fa.gb', 'proof.c'] + defs, 300, d)
    if rc != 0: return None
    cur = 'fa.gb'
    if proof.nondet_static:
        rc, so, se, dt = run(['goto-instrument', '--nondet-static-matching', r'proof\.c:.*', cur, 'fn.gb'], 300, d)
        if rc != 0: return None
        cur = 'fn.gb'
    if gi:
        g2 = gi[:-2] + [cur, 'fb.gb']
        rc, so, se, dt = run(g2, 600, d)
        if rc != 0: return None
        cur = 'fb.gb'
    c2 = ['cbmc', cur, '--external-sat-solver', 'kissat', '--stop-on-fail'] + [x for x in cmd[2:]]
    rc, so, se, dt = run(c2, timeout, d)
    if se == 'TIMEOUT': return None
    try: js = json.loads(so)
    except Exception: return None
    failed = [el for el in js if isinstance(el, dict) and el.get('status') == 'failed' and 'property' in el]
    status = [el.get('cProverStatus') for el in js if isinstance(el, dict) and 'cProverStatus' in el]
    if failed:
        res = [{'property': f['property'], 'description': f.get('description', ''), 'status': 'FAILURE', 'sourceLocation': (f.get('trace') or [{}])[-1].get('sourceLocation', {})} for f in failed]
        res.append({'property': 'verif_harness.assertion.canary', 'description': 'verif canary: (fallback run, canary compiled out)', 'status': 'FAILURE'})
        res.append({'property': proof.enforce + '.postcondition.fallback' if proof.enforce else 'fallback', 'description': 'placeholder: full obligation list unavailable after time-out', 'status': 'SUCCESS'})
        return json.dumps([{'result': res}])
    return None


def obligation_class(name):
    m = re.search(r'\.([A-Za-z_\-]+)\.\d+$', name)
    if m: return m.group(1)
    m = re.search(r'\.([A-Za-z_\-]+)$', name)
    return m.group(1) if m else name


def backend_flags(b):
    return {'cadical': ['--sat-solver', 'cadical'], 'minisat': [], 'kissat': ['--external-sat-solver', 'kissat'],
            'cvc5': ['--cvc5'], 'z3': ['--z3']}[b]


class ProofResult:
    def __init__(self, proof):
        self.proof = proof; self.status = None; self.obligations = []; self.failed = []; self.secs = 0.0
        self.msg = ''; self.functions = []; self.rules = {}; self.cmd = ''; self.assumed = []; self.cfile = None
        self.canary_ok = None


def run_proof(sess, sp, proof):
    res = ProofResult(proof)
    t0 = time.time()
    d = os.path.join(sess.dir, re.sub(r'\W', '_', proof.name))
    os.makedirs(d, exist_ok=True)
    try:
        a = assemble(sess, sp, proof)
    except Broken as ex:
        res.status = 'broken'; res.msg = str(ex); return res
    res.functions = a.functions; res.rules = a.rules; res.assumed = a.assumed
    cfile = os.path.join(d, 'proof.c'); open(cfile, 'w').write(a.text); res.cfile = cfile
    defs = ['-D' + x for x in proof.defines]
    rc, so, se, dt = run(['goto-cc', '--function', 'verif_harness', '-o', 'a.gb', 'proof.c'] + defs, 300, d)
    if rc != 0:
        res.status = 'broken'; res.msg = 'goto-cc failed (emitted C does not compile):\n' + (se + so)[-3000:]; return res
    cur = 'a.gb'
    if proof.nondet_static:
        rc, so, se, dt = run(['goto-instrument', '--nondet-static-matching', r'proof\.c:.*', cur, 'n.gb'], 300, d)
        if rc != 0: res.status = 'broken'; res.msg = 'nondet-static failed: ' + (se + so)[-2000:]; return res
        cur = 'n.gb'
    use_dfcc = bool(proof.enforce or a.replaced or a.loops_with_contract)
    gi = []
    if use_dfcc:
        gi = ['goto-instrument', '--dfcc', 'verif_harness']
        if proof.enforce: gi += ['--enforce-contract', proof.enforce]
        for r in a.replaced: gi += ['--replace-call-with-contract', r]
        # --apply-loop-contracts on a loop without a contract gives spurious 'is assignable' failures (probed)
        gi += (['--apply-loop-contracts'] if a.loops_with_contract else []) + [cur, 'b.gb']
        rc, so, se, dt = run(gi, 600, d)
        if rc != 0:
            res.status = 'broken'; res.msg = 'goto-instrument --dfcc failed:\n' + (se + so)[-3000:]; return res
        cur = 'b.gb'
    flags = [f for f in DEFAULT_FLAGS if f not in proof.nochecks and f != 'conversion-check-off'] + proof.checks
    cmd = ['cbmc', cur] + ['--' + f for f in flags] + ['--json-ui']
    if proof.unwind is not None: cmd += ['--unwind', str(proof.unwind)]
    if proof.unwindset:
        us = proof.unwindset.split(',')
        # a loop of a verified body that has neither a loop contract nor an entry in the unwindset (a loop the current code
        # has and the spec does not know: new loop in a changed function, loop of an auto-inlined helper) gets a default bound,
        # so that it is unwound and checked (unwinding assertion) instead of being unwound for ever
        bounds = [int(u.rsplit(':', 1)[1]) for u in us if u.rsplit(':', 1)[-1].isdigit()]
        dflt = (max(bounds) if bounds else 6) + 2
        have = set(u.rsplit(':', 1)[0] for u in us)
        for fn in a.functions:
            cn = fn['function']; fs = sp.functions.get(cn)
            for k in range(fn.get('loops', 0)):
                contract = fs is not None and k in fs.loops and not proof.no_loop_contracts and cn not in a.auto_bodies
                if not contract and '%s.%d' % (cn, k) not in have: us.append('%s.%d:%d' % (cn, k, dflt))
        if proof.enforce:   # dfcc renames the enforced function's body
            us += [u.replace(proof.enforce + '.', proof.enforce + '_wrapped_for_contract_checking.', 1) for u in us if u.startswith(proof.enforce + '.')]
        cmd += ['--unwindset', ','.join(us)]
    if proof.object_bits: cmd += ['--object-bits', str(proof.object_bits)]
    backends = proof.backend.split(',')
    if proof.split:
        rc, so, se, dt, used = run_split(cur, proof, backends, base_tail(cmd, proof), d)
    else:
        rc, so, se, dt, used = run_portfolio(cur, backends, base_tail(cmd, proof), proof.timeout, d)
    cmd = ['cbmc', cur] + backend_flags(used.split('+')[0].split('(')[0] if used.split('+')[0] in ('kissat','cadical','z3','cvc5','minisat') else backends[0]) + base_tail(cmd, proof)
    res.backend_used = used; res.secs = dt
    res.cmd = (' '.join(gi) + ' && ' if gi else '') + ' '.join(cmd)
    open(os.path.join(d, 'cbmc.json'), 'w').write(so)
    if se != 'TIMEOUT' and 'external SAT solver has provided an unexpected response' in so:
        se = 'TIMEOUT'      # the external solver died (memory limit) in one of the per-failure calls: same remedy as a time-out
    if se == 'TIMEOUT':
        # a run with failing obligations needs one solver call per failure and is much slower than a passing one:
        # before giving up, look for ONE failing obligation with --stop-on-fail on a canary-free build
        fb = stop_on_fail_fallback(proof, d, defs, gi, cmd, max(120, proof.timeout // 2))
        if fb is None:
            res.status = 'broken'; res.msg = 'cbmc timeout after %ds (%s), fallback --stop-on-fail undecided too' % (proof.timeout, proof.backend); return res
        so = fb; res.fallback = True; res.secs += 0
    try:
        js = json.loads(so)
    except Exception:
        res.status = 'broken'; res.msg = 'cbmc output unparsable (rc=%s): %s' % (rc, (so[-1500:] + se[-1500:])); return res
    results = None; msgs = []
    for el in js:
        if 'result' in el: results = el['result']
        if el.get('messageType') in ('ERROR', 'WARNING'): msgs.append(el.get('messageText', ''))
    bad = [m for m in msgs if re.search(r'ignoring forall|ignoring exists|Parse Error|error message|no body for function|not declared', m)]
    nobody = [m for m in bad if 'no body for function' in m]
    if results is None:
        res.status = 'broken'; res.msg = 'cbmc gave no result (rc=%s): %s' % (rc, '; '.join(msgs)[-2000:] + se[-500:]); return res
    if [m for m in bad if 'no body' not in m]:
        res.status = 'broken'; res.msg = 'solver/back-end problem: ' + '; '.join(bad)[:1500]; return res
    if nobody:
        res.status = 'broken'; res.msg = 'calls without body or contract: ' + '; '.join(nobody)[:1500]; return res
    res.obligations = results
    failed = [r for r in results if r['status'] != 'SUCCESS']
    canary = [r for r in failed if 'verif canary' in r.get('description', '')]
    failed = [r for r in failed if 'verif canary' not in r.get('description', '')]
    if proof.canary:
        res.canary_ok = bool(canary)
        if not canary:
            res.status = 'broken'; res.msg = 'vacuity: the canary after the call is unreachable (contradictory preconditions?)'; return res
    res.obligations = [r for r in results if 'verif canary' not in r.get('description', '')]
    names = [r['property'] for r in res.obligations]
    if getattr(res, 'fallback', False): pass
    elif proof.enforce and not any('.postcondition' in n for n in names):
        res.status = 'broken'; res.msg = 'vacuity: no postcondition obligation was generated'; return res
    if not getattr(res, 'fallback', False) and a.loops_with_contract and sum(1 for n in names if 'loop_invariant_step' in n) < 1:
        res.status = 'broken'; res.msg = 'vacuity: loop contracts given but no loop_invariant_step obligation generated (contract dropped)'; return res
    res.dir = d; res.cur = cur; res.cbmc_cmd = cmd
    if failed and not any(r['status'] == 'FAILURE' for r in failed):
        res.status = 'broken'; res.msg = 'obligations with status ' + ','.join(sorted(set(r['status'] for r in failed))); return res
    res.undetermined = [r for r in failed if r['status'] != 'FAILURE']
    failed = [r for r in failed if r['status'] == 'FAILURE']
    res.failed = failed
    res.status = 'fail' if failed else 'pass'
    res.dir = d; res.cur = cur; res.cbmc_cmd = cmd
    return res


def trace_for(res, prop, timeout=600):
    """rerun cbmc for one failing obligation with a trace; returns (inputs dict, raw trace text)"""
    cmd = [c for c in res.cbmc_cmd if c != '--json-ui'] + ['--property', prop, '--trace', '--json-ui']
    rc, so, se, dt = run(cmd, timeout, res.dir)
    inputs = {}; steps_txt = []
    try:
        js = json.loads(so)
    except Exception:
        return inputs, so[-4000:]
    for el in js:
        for r in el.get('result', []):
            if r.get('property') == prop and 'trace' in r:
                for st in r['trace']:
                    if st.get('stepType') == 'assignment' and not st.get('hidden'):
                        lhs = st.get('lhs'); v = st.get('value', {})
                        fn = st.get('sourceLocation', {}).get('function', '')
                        val = v.get('data', v.get('name'))
                        if v.get('name') == 'pointer': val = v.get('data')
                        if lhs and val is not None:
                            steps_txt.append('%s:%s %s = %s' % (fn, st.get('sourceLocation', {}).get('line', '?'), lhs, val))
                            if fn in ('verif_harness', '') or st.get('assignmentType') == 'actual-parameter' and fn == '':
                                inputs[lhs] = {'value': val, 'binary': v.get('binary')}
                    if st.get('stepType') == 'function-call' and not st.get('hidden'):
                        steps_txt.append('call ' + st.get('function', {}).get('displayName', '?'))
    return inputs, '\n'.join(steps_txt[-400:])
