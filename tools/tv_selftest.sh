#!/bin/sh
# the translation-validation guard must fire on a corrupted emission and stay silent on the real one
cd "$(dirname "$0")/.." || exit 2
exec timeout 600 python3 tools/tv.py --selftest "$@"
