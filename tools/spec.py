#!/usr/bin/env python3
"""Contract spec files (DESIGN.md section 2.2).

Grammar (line oriented, '#' at column 0 starts a comment outside text sections):

  @tu <path relative to /repo>             default translation unit of the proofs in this file
  @use <other spec file>                   import its @function/@stub/@decl blocks
  @import-proofs <spec file> <proof>...    proofs of another property's spec file that also decide this property
  @decl ... @end                           raw C placed after the emitted types/globals (ghost state, macros)
  @stub <cname> ... @end                   raw C declaration *with contract* of a function that is not
                                           extracted (platform seam, callee abstracted by its contract)
  @function <cname>                        contract of an extracted function
      @contract ...                        clauses spliced after the emitted signature
      @loop <k> ...                        loop contract spliced at loop ordinal k
      @ghost entry|before-loop k|after-loop k|body-begin k ...   ghost statements
  @end
  @proof <name>
      @tu <path>                           overrides the file default
      @enforce <cname>                     function whose contract is enforced (dfcc)
      @body <cname> ...                    extracted bodies verified together with it (inlined callees)
      @replace <cname> ...                 calls replaced by contract
      @checks <flag> ...                   extra cbmc flags without the leading --
      @nochecks <flag> ...                 default flags to drop
      @backend cadical|minisat|cvc5|z3|kissat
      @unwind N / @unwindset a:b,c:d
      @bounded <text>                      marks a bounded stand-in; text states the bound
      @complete-unwind <text>              constant-bounded loops unwound completely
      @define NAME[=v] ...                 extra -D for clang and goto-cc
      @timeout seconds
      @tier quick|thorough
      @canary on|off
      @split-backend <regex>=<backends>    obligations whose name matches regex are decided by these back ends (separate cbmc run), the rest by @backend
      @no-loop-contracts                   splice the bodies WITHOUT their @loop clauses (bounded concrete companion of a loop-contract proof; needs @unwindset)
      @allow-wrap <cname> ...              bodies in which unsigned wrap-around is intended (pragma disables the check there)
      @harness ... (C text; must define void verif_harness(void))
      @extra ... (C text appended before the harness: stub bodies etc.)
      @property-classes a b ...            obligation classes that are property-level for this proof
      @replay <driver> [key=value ...]     native replay driver under /verif/replay
  @end
"""
import os, re

class SpecError(Exception):
    pass

class FunctionSpec:
    def __init__(self, name):
        self.name = name; self.contract = ''; self.loops = {}; self.ghost = {}; self.origin = None; self.tu = None

class Proof:
    def __init__(self, name):
        self.name = name; self.tu = None; self.enforce = None; self.bodies = []; self.replace = []
        self.checks = []; self.nochecks = []; self.backend = 'kissat'; self.unwind = None; self.unwindset = None
        self.bounded = None; self.complete_unwind = None; self.defines = []; self.timeout = 600
        self.tier = 'quick'; self.canary = True; self.harness = None; self.extra = ''; self.origin = None
        self.replay = None; self.note = ''; self.nondet_static = True; self.object_bits = None
        self.expect_unreachable = False; self.includes = []; self.allow_wrap = []; self.no_loop_contracts = False; self.split = None; self.fallback = None; self.thorough = {}

class Spec:
    def __init__(self):
        self.tu = None; self.decls = []; self.stubs = {}; self.functions = {}; self.proofs = []
        self.files = []
        self.imports = []     # (spec file, [proof names]) decided by another property's spec but also part of this one

    def load(self, path, top=True):
        path = os.path.abspath(path)
        if path in self.files: return self
        self.files.append(path)
        lines = open(path).read().split('\n')
        i = 0
        file_tu = None
        def block(i):
            out = []
            while i < len(lines) and lines[i].strip() != '@end':
                out.append(lines[i]); i += 1
            if i >= len(lines): raise SpecError('%s: missing @end' % path)
            return out, i + 1
        while i < len(lines):
            ln = lines[i]; st = ln.strip()
            if not st or st.startswith('#'): i += 1; continue
            if not st.startswith('@'): raise SpecError('%s:%d: text outside a block: %s' % (path, i + 1, st))
            w = st.split()
            key = w[0]
            if key == '@tu':
                if top: self.tu = w[1]
                file_tu = w[1]
                i += 1
            elif key == '@import-proofs':
                if top: self.imports.append((os.path.join(os.path.dirname(path), w[1]), w[2:]))
                i += 1
            elif key == '@use':
                self.load(os.path.join(os.path.dirname(path), w[1]), top=False); i += 1
            elif key == '@decl':
                b, i = block(i + 1); self.decls.append(('\n'.join(b), path))
            elif key == '@stub':
                b, i = block(i + 1)
                if w[1] in self.stubs: raise SpecError('duplicate stub ' + w[1])
                self.stubs[w[1]] = '\n'.join(b)
            elif key == '@function':
                b, i = block(i + 1)
                f = FunctionSpec(w[1]); f.origin = path; f.tu = file_tu
                sec = None
                for l in b:
                    s = l.strip()
                    if s.startswith('@contract'): sec = ('contract',); continue
                    if s.startswith('@loop'): sec = ('loop', int(s.split()[1])); f.loops.setdefault(sec[1], ''); continue
                    if s.startswith('@ghost'):
                        p = s.split(); where = ' '.join(p[1:]); sec = ('ghost', where); f.ghost.setdefault(where, ''); continue
                    if s.startswith('#') or not s: continue
                    if sec is None: raise SpecError('%s: text before a section in @function %s' % (path, w[1]))
                    if sec[0] == 'contract': f.contract += l + '\n'
                    elif sec[0] == 'loop': f.loops[sec[1]] += l + '\n'
                    else: f.ghost[sec[1]] += l + '\n'
                if w[1] in self.functions: raise SpecError('duplicate function spec ' + w[1])
                self.functions[w[1]] = f
            elif key == '@proof':
                b, i = block(i + 1)
                if not top: continue
                p = Proof(w[1]); p.origin = path; p.tu = self.tu
                sec = None
                for l in b:
                    s = l.strip()
                    if s.startswith('@') and not s.startswith('@@'):
                        sec = None
                        a = s.split(); k = a[0]; v = a[1:]
                        if k == '@tu': p.tu = v[0]
                        elif k == '@enforce': p.enforce = v[0]
                        elif k == '@body': p.bodies += v
                        elif k == '@replace': p.replace += v
                        elif k == '@checks': p.checks += v
                        elif k == '@nochecks': p.nochecks += v
                        elif k == '@backend': p.backend = v[0]
                        elif k == '@unwind': p.unwind = int(v[0])
                        elif k == '@unwindset': p.unwindset = ','.join(v)
                        elif k == '@bounded': p.bounded = ' '.join(v)
                        elif k == '@complete-unwind': p.complete_unwind = ' '.join(v)
                        elif k == '@define': p.defines += v
                        elif k == '@timeout': p.timeout = int(v[0])
                        elif k == '@tier': p.tier = v[0]
                        elif k == '@canary': p.canary = v[0] == 'on'
                        elif k == '@nondet-static': p.nondet_static = v[0] == 'on'
                        elif k == '@object-bits': p.object_bits = int(v[0])
                        elif k == '@note': p.note = ' '.join(v)
                        elif k == '@allow-wrap': p.allow_wrap += v
                        elif k == '@no-loop-contracts': p.no_loop_contracts = True
                        elif k == '@fallback': p.fallback = v[0]
                        elif k == '@thorough':     # @thorough define X=6 | unwindset a.0:9,b.0:9 | timeout 900 | bounded <text>: deeper variant of the SAME proof in the thorough tier
                            p.thorough[v[0]] = ' '.join(v[1:])
                        elif k == '@split-backend': p.split = (v[0].split('=')[0], v[0].split('=')[1])
                        elif k == '@replay': p.replay = v
                        elif k == '@include': p.includes += v
                        elif k == '@harness': sec = 'harness'; p.harness = ''
                        elif k == '@extra': sec = 'extra'
                        else: raise SpecError('%s: unknown directive %s in proof %s' % (path, k, p.name))
                        continue
                    if sec == 'harness': p.harness += l + '\n'
                    elif sec == 'extra': p.extra += l + '\n'
                    elif s and not s.startswith('#'): raise SpecError('%s: stray text in proof %s: %s' % (path, p.name, s))
                self.proofs.append(p)
            else:
                raise SpecError('%s:%d: unknown directive %s' % (path, i + 1, key))
        return self


ASSUMPTION_PATTERNS = [r'__CPROVER_assume\s*\(', r'@stub\b']

def scan_assumptions(paths):
    """mechanical scan for assumed facts (DESIGN 2.5): every __CPROVER_assume and every @stub"""
    found = []
    for p in paths:
        try: txt = open(p).read().split('\n')
        except OSError: continue
        for n, l in enumerate(txt, 1):
            if '__CPROVER_assume' in l and not l.strip().startswith('#'):
                found.append('%s:%d: %s' % (os.path.relpath(p, '/verif'), n, l.strip()[:160]))
            m = re.match(r'\s*@stub\s+(\S+)', l)
            if m: found.append('%s:%d: assumed contract of %s' % (os.path.relpath(p, '/verif'), n, m.group(1)))
    return found
